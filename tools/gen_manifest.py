#!/usr/bin/env python3
"""Regenerates MANIFEST.json from the table below and validates it (and every
evidence file present) against the schemas in /root/.vp.  Run after adding a
property module."""
import glob
import json
import os
import sys

V = os.path.dirname(os.path.dirname(os.path.abspath(__file__)))
sys.path.insert(0, V)

MC = "model_checking"
EX = "exploration"

# id -> (level, technique, text, note, design_ref)
CHECKS = {}


def reg(pid, level, technique, text, note, ref):
    CHECKS[pid] = (level, technique, text, note, ref)


exec(open(os.path.join(V, "tools", "manifest_table.py")).read())

props = [json.loads(l) for l in open(os.path.join(V, "properties.jsonl"))]
fix_commits = []
checks = []
na = []
for p in props:
    pid = p["id"]
    if pid in CHECKS and os.path.exists(os.path.join(V, "mc", "props", pid.lower() + ".py")):
        level, tech, text, note, ref = CHECKS[pid]
        checks.append({
            "property_id": pid,
            "quick_cmd": "./check %s --tier quick" % pid,
            "thorough_cmd": "./check %s --tier thorough" % pid,
            "evidence_file": "/verif/evidence/%s.json" % pid,
            "replay_cmd_template": "./check %s --replay {path}" % pid,
            "engine": "mc-explorer",
            "level_claimed": {"category": level, "text": text, "design_ref": ref},
            "level_note": note,
            "technique": tech,
        })
    else:
        na.append({"property_id": pid, "reason": "check not built yet (build in progress, see DESIGN.md section 8); the technique applies"})

man = {
    "version": 1,
    "setup_cmd": "/venv/bin/python -c \"import numpy, scipy, flowdyn, aerokit; print('ok')\"",
    "hooks": {
        "guard": "FLOWDYN_VERIF",
        "enable": "no source hooks are needed: every observation point is public API or a documented attribute; "
                  "./check exports FLOWDYN_VERIF=1 for uniformity and imports flowdyn from /repo's working tree (VERIF_REPO)",
        "baseline_off_cmd": "cd /repo && env -u FLOWDYN_VERIF /venv/bin/python -m pytest -ra -q -p no:cacheprovider --timeout=900 --continue-on-collection-errors",
        "source_commits": [],
        "add_only": True,
    },
    "engines": [{
        "name": "mc-explorer",
        "path": "/verif/mc",
        "serves_properties": [c["property_id"] for c in checks],
        "kind_free_text": "hand-written explicit-state / small-scope exhaustive explorer in Python running the real flowdyn code "
                          "(BFS over real step/solve/restart calls with canonical state hashing; complete enumeration of finite "
                          "alphabets of cell states, meshes and configurations; packed stencil windows)",
    }],
    "checks": checks,
    "not_applicable": na,
    "notes": "All checks execute /repo's working tree directly (pure Python, nothing to build). known_findings.json lists recorded "
             "and repaired defects. seeded/ holds property-breaking changes used to demonstrate detection.",
}
if not na:
    del man["not_applicable"]
json.dump(man, open(os.path.join(V, "MANIFEST.json"), "w"), indent=1)

try:
    import jsonschema
except ImportError:
    print("jsonschema not importable here; run with python3-vt to validate")
    sys.exit(0)
jsonschema.validate(man, json.load(open("/root/.vp/MANIFEST.schema.json")))
es = json.load(open("/root/.vp/EVIDENCE.schema.json"))
for f in sorted(glob.glob(os.path.join(V, "evidence", "*.json"))):
    jsonschema.validate(json.load(open(f)), es)
    print("evidence ok:", os.path.basename(f))
print("MANIFEST ok: %d checks, %d not_applicable" % (len(checks), len(na)))
