# table of claimed checks; exec'd by gen_manifest.py (reg, MC, EX in scope)
reg("C12", EX, "small-scope exhaustive enumeration of the real limiter functions over a float lattice (all ordered pairs)",
    "Every ordered pair of a 977-value lattice (all sign patterns, zeros, equal arguments, ratios up to 1e300, over/underflow "
    "regimes of the intermediate products) is evaluated on the real xnum limiter functions and judged against the TVD-region, "
    "symmetry, oddness, homogeneity and phi(a,a)=a rules; scalars against arrays. The claim over 'all floats' is decided on the lattice only.",
    "values between lattice points are not explored; IEEE arithmetic of numpy elementwise operations", "DESIGN.md 3/C12")
