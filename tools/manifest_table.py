# table of claimed checks; exec'd by gen_manifest.py (reg, MC, EX in scope)
reg("C12", EX, "small-scope exhaustive enumeration of the real limiter functions over a float lattice (all ordered pairs)",
    "Every ordered pair of a 977-value lattice (all sign patterns, zeros, equal arguments, ratios up to 1e300, over/underflow "
    "regimes of the intermediate products) is evaluated on the real xnum limiter functions and judged against the TVD-region, "
    "symmetry, oddness, homogeneity and phi(a,a)=a rules; scalars against arrays. The claim over 'all floats' is decided on the lattice only.",
    "values between lattice points are not explored; IEEE arithmetic of numpy elementwise operations", "DESIGN.md 3/C12")
reg("C02", EX, "small-scope exhaustive enumeration: all ordered state pairs of a product alphabet through the real numflux functions",
    "All ordered pairs (W_L,W_R) of a product alphabet (equal states, sonic and stagnation points, ratios up to 1e12) per model, "
    "gamma/g/a, registered flux and 2D face direction are evaluated on the real numflux and judged for consistency, mirror symmetry "
    "(parity per component) and upwinding on the supercritical sub-lattice whose regime an independent Roe average decides; "
    "a branch census (sL>=0 / sL<0<sR / sR<=0, ties) shows the alphabet is not vacuous.",
    "states between alphabet letters are not explored; tolerance 64 eps x rho_max x s_max^k", "DESIGN.md 3/C02")
reg("C16", EX, "small-scope exhaustive enumeration of (interior state, parameters, side, gamma) through namedBC and the modeldisc dispatch",
    "Every boundary-condition name of the 1D and 2D Euler models, shallow water and 'dirichlet' of all six models is evaluated on "
    "every combination of an interior-state alphabet, parameter sets and sides (four sides x eight flow angles in 2D), directly and "
    "through the boundary faces of modeldisc.rhs for all ordered pairs (all 5^4 side assignments in 2D) of conditions; the returned "
    "states are judged against independent isentropic, characteristic and Rankine-Hugoniot relations, wall fluxes for every registered flux.",
    "alphabet lattice only; regime membership decided by the reference side; outsub_nrcbc invariant read as the one constant across the outgoing wave",
    "DESIGN.md 3/C16")
reg("C17", EX, "small-scope exhaustive enumeration of states x gamma x models x every name of list_var()",
    "Round trip prim->cons->prim and every registered variable name are evaluated through field.phydata on a product alphabet "
    "(12 decades of density/pressure, Mach 0..30, 8 directions in 2D, 4 gammas, 3 section laws) and compared with the definitions of "
    "the property computed from the primitive state; one value per cell for scalar names.",
    "alphabet lattice only; tolerance 32 eps x (1+gamma M^2); |mach| compared (1D returns signed u/a, asserted by the pinned suite)", "DESIGN.md 3/C17")
reg("C18", EX, "small-scope exhaustive enumeration of states x meshes x CFL x models; explicit enumeration of driver runs for the use of the step",
    "calc_timestep is compared on a product alphabet with the closed form and, independently, with CFL*h over the spectral radius of a "
    "central-difference Jacobian of the model's own consistent flux; positivity, bitwise proportionality to CFL and to the cell size, "
    "locality under all single-cell substitutions on all assignments to n<=3 cells, dx*dy/(dx+dy) in 2D; for every integrator class the "
    "time increments of solve equal min dt(Q_k) and the dtlocal directive equals a real step with the per-cell array.",
    "alphabet lattice only; numerical spectral radius accurate to 1e-7 (threshold 1e-5); zero-speed Burgers cells accept +inf", "DESIGN.md 3/C18")
reg("C20", EX, "exhaustive enumeration of a lattice of mesh-constructor arguments",
    "Every argument combination of a lattice (ncell 1..12,50,101; 5 lengths over 9 decades; 4 origins; 5 ratios x 5 zone proportions; "
    "5 morphing functions; nx,ny 1..5 x 3 aspect ratios) is built with the real constructors and checked as a partition (faces, "
    "end points, midpoints, volumes, weighted averages, zone ratio) and, in 2D, against boundary-face sets, orientations and normals "
    "recomputed from the row-wise numbering.",
    "argument lattice only; morphing functions strictly increasing", "DESIGN.md 3/C20")
reg("C05", MC, "explicit-state exploration of real step() calls; Butcher tableau decoded from the implementation with a unit-vector probe RHS, model checked on all rooted trees, traces replayed against the implementation",
    "The tableau (A, b, c, time advance) of every explicit class is decoded exactly from the real step() driven by a probe right-hand side; "
    "all rooted-tree order conditions up to the nominal order, sum b = 1, A.1 = c = presented stage time, the SSP criterion, the published "
    "stability polynomials and propagator() are checked on the decoded model; conformance (model traces validated against the "
    "implementation): for every data assignment of an alphabet on real discretisations, scalar and per-cell dt, two consecutive steps, "
    "the real step equals a generic RK loop run from the decoded tableau, on the same and on a fresh solver object.",
    "'for every RHS' is covered by conformance over the alphabet of real discretisations; Bogey-Bailly coefficients matched to 1e-9", "DESIGN.md 3/C05")
reg("C07", MC, "explicit-state exploration of the real solve/restart driver over an alphabet of save lists, stop dictionaries, start times, integrators; oracle = the property on a reference trajectory of real steps",
    "Every strictly increasing save list (length <= 3, thorough 4) over 8 ticks (start time, two/three times inside one step, step "
    "boundaries, before the start, beyond the stop) x 10 stop dictionaries x 4 start times (0, 0.75, -3.25, 2^27) x every integrator class x 3 systems is run "
    "through the real solve, in six rotating ways of writing the call (keywords, tuple/array save times, numpy CFL, defaults); restart is explored from every snapshot returned by a reduced first level. Each run is judged for iteration "
    "count, presence/order/stamp of snapshots, values reachable by a forward step <= one CFL step from the reference trajectory, finiteness, "
    "caller's field untouched; non-terminating calls are bounded by a horizon and reported.",
    "4-ulp band on all time comparisons; gear snapshot values only checked for stamp/count/finiteness; implicit snapshot values to 1e-6", "DESIGN.md 3/C07")
reg("C08", MC, "explicit-state exploration of call histories on one solver object with a differential (bitwise) oracle",
    "Histories = prefix of <= 2 letters out of 13 disturbing operations (solve/restart with other field, save lists, stops, monitors, CFL, dtlocal, bare stop dictionary, other solver objects) followed by a probe call, plus three deep traces through all letters (not exhaustive at that depth), on one "
    "solver object, for every integrator class x 3 systems x monitors given to solve or to the constructor. The probe's observations "
    "(returned fields, counters, solver.Qn, monitor records) must be bit-identical to the same probe on a fresh object, to sibling probes "
    "differing only in save lists or monitors, and solve(N)+restart(M) to solve(N+M); monitor records are recomputed from a reference trajectory.",
    "restart equivalence on the same object; a reused monitor dictionary accumulates per call", "DESIGN.md 3/C08")
reg("C01", EX, "small-scope exhaustive enumeration of cell data x meshes x configurations through the real rhs; BFS over real step() transitions for the solve-level claim",
    "Every assignment of a cell-state alphabet to every mesh with n<=4 cells (all width vectors over {1/2,1,2}, uniform, refined) x 6 models "
    "x every registered flux x 12-16 reconstructions x periodic/wall/dirichlet/every Euler inlet-outlet on either side is evaluated once with "
    "the real rhs and sum(vol*R) compared with the boundary fluxes (0 for periodic; mass/energy/depth 0 for walls); 2D: all assignments on "
    "grids {1,2,3}^2 x 2 fluxes x 6 reconstructions x 7 boundary sets with boundary faces recomputed from the numbering; solve level: BFS "
    "depth 3 (implicit quick: 2) over (integrator, CFL) transitions of every integrator class from every non-uniform assignment, 1D and 2D.",
    "alphabet lattice only; open-boundary fluxes read from the 'flux' attribute; inadmissible reconstructions counted and skipped; implicit classes to 1e-6(1+CFL)",
    "DESIGN.md 3/C01")
reg("C09", MC, "packed stencil windows (exhaustive over an alphabet, one real step) + BFS over real step() transitions from every data assignment, invariant checked on every transition",
    "All 3-windows over (state x cell-width) letters for first-order upwind convection of either sign at CFL 1 and 1/2, and all 5-windows over "
    "the state alphabet for MUSCL with each limiter (convection of either sign, Burgers) at CFL 1/2 and 1/4 are packed into one periodic mesh "
    "and advanced by one real forward-Euler step at the window's CFL step: the new centre value stays in the window's range (over the "
    "alphabet this is equivalent to the global maximum principle on meshes of any size). Range and total variation are then checked after "
    "every transition of a depth-3 BFS over real steps of explicit/rk2_heun/rk3ssp from every data assignment on periodic meshes n=3..5 (6).",
    "alphabet lattice (BFS reaches non-alphabet values after one step); tolerance 16 eps; Burgers u==0 excluded", "DESIGN.md 3/C09")
reg("C10", MC, "packed stencil windows over a strong alphabet (exhaustive, one real step) + BFS over real SSP steps from every data assignment",
    "All 3-windows over a strong alphabet closed under u->-u (Euler: 112-144 states, up to 2 985 984 windows per flux and CFL; shallow water "
    "36 states) are packed into one periodic mesh and advanced by one real forward-Euler step at the window's CFL step (1/2, 1/4) for "
    "hlle/hllc and rusanov/hll: density, pressure, depth of every centre cell stay positive and finite (wall windows are included by "
    "closure under reflection). BFS depth 3 over real steps of explicit/rk2_heun/rk3ssp from every assignment of a 6-letter strong "
    "alphabet to 2-3 (4) cells, periodic and sym.",
    "alphabet lattice only; the window step is the min of calc_timestep over the window", "DESIGN.md 3/C10")
reg("C11", EX, "small-scope exhaustive enumeration: all width vectors x profiles x reconstructions; operator matrix from all unit impulses; 2D face states of all unit impulses",
    "Face states of the real discretisation for constant and linear profiles on every width vector of {1/2,1,2}^n (n<=5, thorough 6; dyadic "
    "and non-dyadic scalings) for all 16 reconstructions, interior faces and the periodic seam (data linear across the seam); extrapol1 on "
    "every data assignment; the operator matrix read off the real rhs on all unit impulses for n=1..8, both convection signs and 3 mesh "
    "placements against the circulant kappa stencil, with linearity checked; 2D: face states for a unit impulse at every cell of every "
    "periodic grid (nx,ny) in {1..4}^2 against the kappa stencil along x on i-faces and along y on j-faces.",
    "profile/mesh lattice only; tolerance 32 eps (+1e-20 regularisation for vanalbada/vanleer)", "DESIGN.md 3/C11")
reg("C13", EX, "small-scope exhaustive enumeration of data x meshes x configurations, packed windows, and explicit enumeration of real solve runs; differential oracle (problem vs transformed twin)",
    "The real rhs of every problem of the enumeration (all assignments of an alphabet to all width vectors {1/2,1,2}^n, n<=3 (4), 7 models incl. two "
    "nozzles, every registered flux, 9-16 reconstructions, boundary sets with every condition name on either side) is compared with the real rhs of "
    "its mirror image (mesh reflected, cell order reversed, odd quantities negated, boundary conditions exchanged, section law mirrored); all "
    "5-windows packed for the interior; 2 solve iterations + snapshot for every integrator class; change of units on 8 (4 for regularised "
    "limiters) power-of-two triples, bitwise for rhs, time step and explicit solves.",
    "alphabet lattice; reflection to 64 eps of the flux scale; implicit classes to 1e-6 and only where the operator is differentiable (known finding otherwise, certified per case)",
    "DESIGN.md 3/C13")
reg("C14", EX, "small-scope exhaustive enumeration of periodic data x all cyclic shifts x configurations; explicit enumeration of real solve runs; differential oracle",
    "For every assignment of an alphabet to n=1..5 (6) periodic cells and every cyclic shift, every model, registered flux and reconstruction, "
    "the real rhs of the shifted data equals the shifted rhs (round-off in 1D with the conditioning of the linspace mesh stated, bitwise census "
    "on exactly representable meshes); 2D: all assignments on grids {1,2,3}^2 (4) and all (sx,sy) shifts, bit for bit; two solve iterations + "
    "snapshot for every integrator class (1D, implicit to 1e-6) and every explicit class (2D, bitwise).",
    "alphabet lattice; 1D tolerance 32 eps x (1+8(|x0|+L)/dx) of the flux scale", "DESIGN.md 3/C14")
reg("C15", EX, "small-scope exhaustive enumeration of 2D data x grids x boundary assignments; differential oracle against the real 1D operator and the transformed 2D problem",
    "Rows (columns) of the real 2D rhs equal the real 1D rhs for every 1D data assignment extended invariantly, 2 fluxes, 6 reconstruction "
    "pairs, all 26 (left,right) pairs of the six condition names x {per,sym} on the other sides, both orientations, and the transverse "
    "momentum residual vanishes; the rhs of the transposed, x-reflected and y-reflected problem equals the transformed rhs for all 676 "
    "admissible assignments of the six names to four sides on grids with <= 4 cells and 12 boundary sets on 2x3, 3x2, 3x3 (4x2, 2x4), "
    "including insup with an oblique angle.",
    "alphabet lattice; tolerance 64 eps of the flux scale over min(dx,dy)", "DESIGN.md 3/C15")
reg("C03", EX, "small-scope exhaustive enumeration of uniform states x meshes x configurations x compatible boundary sets; explicit enumeration of real solve runs",
    "Every uniform state of a product alphabet (sub/supersonic, both directions, 8 flow angles in 2D, at rest) on 12 meshes (2D: 9 grids), all "
    "reconstructions and registered fluxes, with every boundary set compatible with the state - periodic, dirichlet, every in-regime "
    "inlet/outlet pair on either side with ptot, rttot, p computed from the state by reference relations, 2D: 9 families including inlets through "
    "each of the four sides and oblique supersonic inflow with the angle parameter - gives a zero real residual; nozzle at rest for 5 section laws; "
    "2 solve iterations + snapshot for every integrator class, global and local time step, return the state.",
    "alphabet lattice; tolerance 64 eps of the flux scale/dx x (1+2/((g-1)M^2)) for inlets; implicit 2e-6; Burgers u==0 is a known finding", "DESIGN.md 3/C03")
reg("C19", EX, "small-scope exhaustive enumeration of source lists x models x meshes x data; differential oracle (with vs without sources) and call counters",
    "Every source list over {None, constant, f(x), f(Q)}^neq for euler1d, nozzle (4 section laws) and shallow water, on 5 meshes with n<=4 cells, 3 "
    "reconstructions, 2 fluxes and every data assignment of a 3-letter alphabet: the real rhs with sources minus the real rhs without equals "
    "source_i(x,Q) on equation i and nothing elsewhere, each source function is called exactly once per rhs, and the nozzle's built-in term "
    "equals -(1/A)(dA/dx) x (rho u, rho u^2, rho u H), identically zero for a constant section.",
    "alphabet lattice; tolerance 16 eps of |source|+|rhs|", "DESIGN.md 3/C19")
reg("C06", EX, "small-scope exhaustive enumeration of fields x meshes x CFL x reconstructions through the real step(); reference = exact resolvent of the operator matrix read off the real rhs",
    "For linear convection (both signs), 12 linear reconstructions, 9 meshes (n<=4, thorough 6), periodic and homogeneous dirichlet boundaries, CFL "
    "0.01..100 and every field of an alphabet (all unit impulses, ones, zero, all S^n vectors, x1e6, x1e-6) one real step of implicit/backwardeuler "
    "and trapezoidal/cranknicolson equals (I-theta dt A)^-1 applied with the exact A; a second step with another dt on the same object too; "
    "gear = one Crank-Nicolson step then the BDF2 recurrence over 3 more steps; Fourier amplification factors (1+(1-theta)z)/(1-theta z) and "
    "no growth for Re z<=0; temporal order from the scalar defect ladder; calc_jacobian against a Richardson-extrapolated central difference "
    "of the real rhs for Burgers/Euler/shallow water, 16 reconstructions, on tie-free states.",
    "tau = 1e-6(1+CFL); Jacobian only where the operator is differentiable (certified per state); propagator() of implicit classes is unusable (AttributeError) and not part of the statement",
    "DESIGN.md 3/C06")
reg("C04", EX, "exhaustive enumeration of stated lattices: operator moments read off the real rhs (exact), mesh ladders of real solves, packaged solutions vs an independent exact Riemann solver",
    "Limited claim (convergence is asymptotic; a ladder can only refute it). E1, exact: for the 12 linear reconstructions the moments of the "
    "circulant stencil read off the real rhs match those of -a d/dx up to the design order (1, 2, 3). E2: observed L1 order on the finest pair "
    "of a 3-4 level ladder of real solves of sin(2 pi k x+phi) for every reconstruction x 3-5 high-order integrators x 2 wavelengths x 2 "
    "phases x 3 speeds. E3: 30 Riemann problems (|u|<c) and their mirror images x {hlle,hllc} x {extrapol1, muscl} x SSP integrators on n=50..200 "
    "(400): error ratio < 1 at every refinement, <= 0.9 on the finest pair, equal errors for a problem and its mirror image; "
    "solution.euler_riemann against an independent exact solver (Toro) at 41 x/t per problem; solution.euler_nozzle against nozzle-flow "
    "identities for 8 NPR x 2 gamma x 2 meshes.",
    "thresholds on a finite ladder; lattices of problems, not all data; nozzle reference for gamma != 1.4 is a known finding", "DESIGN.md 3/C04")
