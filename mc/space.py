"""Configuration registry read off flowdyn itself, mesh builders, alphabets.

Everything that can be discovered at run time (registered fluxes, boundary
conditions, integrator classes) is discovered, so that a newly registered name
is explored without touching the harness.
"""
import itertools
import math

import numpy as np

from . import core

core.bind_repo()

import flowdyn.field as field                      # noqa: E402
import flowdyn.integration as integ                # noqa: E402
import flowdyn.mesh as mesh1                       # noqa: E402
import flowdyn.mesh2d as mesh2                     # noqa: E402
import flowdyn.modeldisc as modeldisc              # noqa: E402
import flowdyn.modelphy.burgers as burgers         # noqa: E402
import flowdyn.modelphy.convection as convection   # noqa: E402
import flowdyn.modelphy.euler as euler             # noqa: E402
import flowdyn.modelphy.shallowwater as shallow    # noqa: E402
import flowdyn.xnum as xnum                        # noqa: E402

EPS = np.finfo(float).eps

# ---------------------------------------------------------------------------
# Other instances exist.  A user's process holds several models and discretisations at once; what one instance computes must not depend on
# instances constructed after it (class-level or module-level shared state).  The module names below are proxies: every constructor call made
# by the harness goes to the real flowdyn class and is then, for the first 60 constructions of a process and then one call in DECOY_EVERY, followed by the construction (and one use) of decoy
# instances of every family with other parameters, before the object is handed back and used.
_real = {"euler": euler, "shallow": shallow, "convection": convection, "burgers": burgers, "modeldisc": modeldisc}
DECOY_EVERY = 25
_decoy = {"n": 0, "busy": False}
# replays run with full interference (decoys after every construction, default boundary arguments for every periodic discretisation): correct
# code cannot tell, and a report that depended on where the counters stood when the explorer met the case is reproduced deterministically
INTERFERENCE = {"all": False}


def _twin_model(model):
    """another instance of the same model class with other parameters, and a generic constant state for it"""
    name = type(model).__name__
    mod = type(model).__module__.rsplit(".", 1)[-1]
    if name == "nozzle":
        return _real["euler"].nozzle(lambda x: 1.3 + 0.2 * x, gamma=1.11), [1.1, 0.2, 2.6]
    if name == "euler2d":
        return _real["euler"].euler2d(gamma=1.876), [1.1, [0.2, -0.1], 2.6]
    if mod == "euler" and name in ("euler1d", "model", "euler"):
        return _real["euler"].euler1d(gamma=1.234), [1.1, 0.2, 2.6]
    if mod == "shallowwater":
        return _real["shallow"].shallowwater1d(g=3.21), [1.2, 0.1]
    if mod == "burgers":
        return _real["burgers"].model(), [0.3]
    if mod == "convection":
        return _real["convection"].model(-7.7), [0.3]
    return None, None


def _shape_twin(disc):
    """a discretisation of the same shape (number of cells, faces) as the one just made but with other sizes, origin, parameters and
    reconstruction object, constructed and *used* (rhs, time step) before the real one is: whatever the library keeps outside the
    objects it was asked about - keyed on sizes or not keyed at all - now holds the twin's values."""
    mesh = getattr(disc, "mesh", None)
    model = getattr(disc, "model", None)
    if mesh is None or model is None:
        return
    tm, state = _twin_model(model)
    if tm is None:
        return
    if isinstance(mesh, mesh2.mesh2d):
        nx, ny = int(mesh.nx), int(mesh.ny)
        for (a, b) in {(ny, nx), (nx, ny)}:
            tmesh = mesh2.mesh2d(a, b, 1.7 * float(mesh.lx) + 0.3, 0.6 * float(mesh.ly) + 0.1)
            per = {"type": "per"}
            td = _real["modeldisc"].fvm2d(tm, tmesh, xnum.extrapol2dk(0.25), {"left": per, "right": per, "top": per, "bottom": per}, numflux="hlle")
            n = tmesh.ncell
            wob = 1.0 + 0.05 * np.cos(1.3 * np.arange(n))
            f = field.fdata(tm, tmesh, [state[0] * wob, np.array([state[1][0] * wob, state[1][1] * np.ones(n)]), state[2] * wob])
            td.rhs(f)
            td.calc_timestep(f, 0.77)
        return
    if not hasattr(mesh, "xf"):
        return
    n = int(mesh.ncell)
    L = float(mesh.xf[-1] - mesh.xf[0])
    tmesh = mesh1.unimesh(ncell=n, length=0.37 * L + 0.11, x0=float(mesh.xf[0]) + 2.2)
    td = _real["modeldisc"].fvm(tm, tmesh, xnum.extrapolk(0.25))
    wob = 1.0 + 0.05 * np.cos(1.3 * np.arange(n))
    f = field.fdata(tm, tmesh, [c * wob for c in state])
    td.rhs(f)
    td.calc_timestep(f, 0.77)


def _make_decoys(made=None):
    if _decoy["busy"]:
        return
    _decoy["n"] += 1
    if not INTERFERENCE["all"] and _decoy["n"] > 60 and _decoy["n"] % DECOY_EVERY:      # always for the first constructions of a process
        return
    _decoy["busy"] = True
    try:
        with np.errstate(all="ignore"):
            if made is not None:
                _shape_twin(made)
            _real["euler"].euler1d(gamma=1.234)
            _real["euler"].euler2d(gamma=1.876)
            _real["euler"].nozzle(lambda x: 1.0 + 0.1 * x, gamma=1.11)
            _real["shallow"].shallowwater1d(g=3.21)
            _real["burgers"].model()
            cm = _real["convection"].model(-7.7)
            m = mesh1.unimesh(ncell=5, length=0.37, x0=2.2)
            d = _real["modeldisc"].fvm(cm, m, xnum.extrapol2())                 # default (periodic) boundary arguments
            d.rhs(field.fdata(cm, m, [np.array([0.3, -1.0, 2.0, 0.5, 0.1])]))
            d.calc_timestep(field.fdata(cm, m, [np.ones(5)]), 0.77)
            em = _real["euler"].euler1d(gamma=1.234)
            d2 = _real["modeldisc"].fvm(em, mesh1.unimesh(ncell=4, length=3.1, x0=-0.9), xnum.muscl(xnum.vanleer), numflux="hllc",
                                       bcL={"type": "sym"}, bcR={"type": "outsup"})
            d2.rhs(field.fdata(em, d2.mesh, [np.array([1.0, 1.2, 0.9, 1.1]), np.array([0.1, -0.2, 0.3, 0.0]), np.array([2.5, 2.6, 2.4, 2.7])]))
    finally:
        _decoy["busy"] = False


class _Proxy:
    def __init__(self, mod, names):
        self.__dict__["_mod"] = mod
        self.__dict__["_names"] = names

    def __getattr__(self, k):
        obj = getattr(self._mod, k)
        if k in self._names:
            def ctor(*a, **kw):
                o = obj(*a, **kw)
                _make_decoys(o if k.startswith("fvm") else None)
                return o
            ctor.__name__ = k
            for attr in ("_numfluxdict", "_bcdict", "_vardict"):      # class-level registries are read by the harness through the proxy
                if hasattr(obj, attr):
                    setattr(ctor, attr, getattr(obj, attr))
            return ctor
        return obj


euler = _Proxy(_real["euler"], {"euler1d", "euler2d", "nozzle", "model", "euler"})
shallow = _Proxy(_real["shallow"], {"shallowwater1d"})
convection = _Proxy(_real["convection"], {"model"})
burgers = _Proxy(_real["burgers"], {"model"})
modeldisc = _Proxy(_real["modeldisc"], {"fvm", "fvm1d", "fvm2d", "fvm2dcart"})

# ---------------------------------------------------------------------------
# integrators


def _all_subclasses(c):
    out = []
    for s in c.__subclasses__():
        out.append(s)
        out += _all_subclasses(s)
    return out


_ABSTRACT = {"timemodel", "rkmodel", "LSrkmodelHH", "implicitmodel"}


def integrators():
    """name -> class for every concrete time integrator exported by flowdyn.integration"""
    out = {}
    for c in _all_subclasses(integ.timemodel):
        if c.__module__ != integ.__name__ or c.__name__ in _ABSTRACT:
            continue
        if issubclass(c, integ.rkmodel) and not hasattr(c, "_butcher"):
            continue
        if issubclass(c, integ.LSrkmodelHH) and not hasattr(c, "_beta"):
            continue
        out[c.__name__] = c
    return dict(sorted(out.items()))


def is_implicit(cls):
    return issubclass(cls, integ.implicitmodel)


def is_multistep(cls):
    return issubclass(cls, integ.gear)


def explicit_integrators():
    return {k: v for k, v in integrators().items() if not is_implicit(v)}


def implicit_integrators():
    return {k: v for k, v in integrators().items() if is_implicit(v)}


# ---------------------------------------------------------------------------
# reconstructions
LIMITERS = ["minmod", "vanalbada", "vanleer", "superbee"]
KAPPAS = {"extrapol2": -1.0, "fromm": 0.0, "quick": 0.5, "extrapol3": 1.0 / 3.0, "centered": 1.0}


# Object pooling (see core.Pooled): when on, model and reconstruction objects are created once per worker and shard and handed out again
# for every later request with the same specification, the way a user reuses one scheme/model object in a loop over meshes and cases.
POOL = {"on": False, "models": {}, "recons": {}}


def pool_reset(on):
    POOL["on"] = on
    POOL["models"].clear()
    POOL["recons"].clear()


def recon(name):
    if POOL["on"]:
        if name not in POOL["recons"]:
            POOL["recons"][name] = _recon(name)
        return POOL["recons"][name]
    return _recon(name)


def _recon(name):
    """factory from a string: extrapol1 | extrapol2 | extrapol3 | centered | fromm | quick |
    extrapolk:<k> | muscl:<limiter>"""
    if name.startswith("extrapolk:"):
        return xnum.extrapolk(float(name.split(":")[1]))
    if name.startswith("muscl:"):
        return xnum.muscl(getattr(xnum, name.split(":")[1]))
    if name.startswith("extrapol2dk:"):
        return xnum.extrapol2dk(float(name.split(":")[1]))
    return getattr(xnum, name)()


def recon_kappa(name):
    """kappa of an unlimited 1D scheme, None for extrapol1 / muscl"""
    if name in KAPPAS:
        return KAPPAS[name]
    if name.startswith("extrapolk:") or name.startswith("extrapol2dk:"):
        return float(name.split(":")[1])
    return None


X1_UNLIMITED = ["extrapol2", "extrapol3", "centered", "fromm", "quick",
                "extrapolk:-1.0", "extrapolk:0.0", "extrapolk:0.3333333333333333", "extrapolk:0.5",
                "extrapolk:0.7", "extrapolk:1.0"]
X1_MUSCL = ["muscl:" + l for l in LIMITERS]
X1_ALL = ["extrapol1"] + X1_UNLIMITED + X1_MUSCL
X1_SHORT = ["extrapol1", "extrapol2", "extrapol3", "centered", "extrapolk:0.7"] + X1_MUSCL
X1_REST = [r for r in X1_ALL if r not in X1_SHORT]      # quick tiers: these names are explored on a reduced set of models (every name is explored)
X2_ALL = ["extrapol2d1"] + ["extrapol2dk:%r" % k for k in (-1.0, 0.0, 1.0 / 3.0, 0.5, 1.0)]


def stencil_width(name):
    return 3 if name in ("extrapol1", "extrapol2d1") else 5


# ---------------------------------------------------------------------------
# models
def make_model(spec):
    if POOL["on"]:
        k = repr(spec)
        if k not in POOL["models"]:
            POOL["models"][k] = _make_model(spec)
        return POOL["models"][k]
    return _make_model(spec)


def _make_model(spec):
    """spec: ('convection', a) | ('burgers',) | ('shallowwater', g) | ('euler1d', gamma) |
    ('nozzle', law, gamma) | ('euler2d', gamma)"""
    kind = spec[0]
    if kind == "convection":
        return convection.model(spec[1])
    if kind == "burgers":
        return burgers.model()
    if kind == "shallowwater":
        return shallow.shallowwater1d(g=spec[1])
    if kind == "euler1d":
        return euler.euler1d(gamma=spec[1])
    if kind == "nozzle":
        return euler.nozzle(SECTION_LAWS[spec[1]], gamma=spec[2])
    if kind == "euler2d":
        return euler.euler2d(gamma=spec[1])
    raise KeyError(kind)


SECTION_LAWS = {
    "const": lambda x: 0.0 * x + 1.5,
    "parab": lambda x: 1.0 + 0.3 * x ** 2,
    "bump": lambda x: 1.0 - 0.5 * np.exp(-(x - 1.0) ** 2),
    "bump_m": lambda x: 1.0 - 0.5 * np.exp(-(-x - 1.0) ** 2),      # mirror image of "bump"
    "lin": lambda x: 1.0 + 0.25 * x,
    "lin_m": lambda x: 1.0 - 0.25 * x,
}
LAW_MIRROR = {"const": "const", "parab": "parab", "bump": "bump_m", "bump_m": "bump", "lin": "lin_m", "lin_m": "lin"}


def fluxes(model):
    """registered numerical flux names of a model (None for models with a single built-in flux)"""
    d = getattr(model, "_numfluxdict", None)
    if isinstance(model, _real["euler"].euler2d):
        # the instance registry also inherits the 1D-only formulas of the base class (hllc, centeredmassflow),
        # which cannot take a face normal; the 2D fluxes are those registered by the 2D class itself
        d = _real["euler"].euler2d._numfluxdict
    names = sorted(d.dict.keys()) if d is not None else []
    return names if names else [None]


def inherited_1d_fluxes(model2d):
    """names in the registry of an euler2d instance whose implementation is not one of the 2D class (inherited from the 1D base class)"""
    own = set(_real["euler"].euler2d._numfluxdict.dict.values())
    return sorted(k for k, fn in model2d._numfluxdict.dict.items() if fn not in own)


def bc_names(model):
    return list(model.list_bc())


# ---------------------------------------------------------------------------
# meshes
def mesh_from_faces(xf):
    xf = np.asarray(xf, dtype=float)
    m = mesh1.morphedmesh(ncell=xf.size - 1, length=float(xf[-1] - xf[0]), morph=lambda x: xf.copy())
    return m


def mesh_from_widths(w, x0=0.0):
    xf = np.concatenate([[x0], x0 + np.cumsum(np.asarray(w, dtype=float))])
    return mesh_from_faces(xf)


def width_vectors(n, letters=(0.5, 1.0, 2.0)):
    return list(itertools.product(letters, repeat=n))


# width vectors at unusual absolute scales and with nearly equal cells: the cell sizes differ by 1e-6..1e-12 in absolute value, or by a few
# 1e-6 relatively - what default tolerances of "is it uniform?"-style tests would call equal
ODD_SCALE_WIDTHS = [(1e-6, 2e-6, 5e-7), (2e3, 5e2, 1e3), (1.0, 1.000001, 0.999998), (5e-7, 5e-7, 1e-6, 1e-6)]


def mesh_spec(spec):
    """('uni', n, length, x0) | ('ref', n, length, ratio, a, b) | ('w', widths..., ) | ('faces', [...])"""
    k = spec[0]
    if k == "uni":
        return mesh1.unimesh(ncell=spec[1], length=spec[2], x0=spec[3] if len(spec) > 3 else 0.0)
    if k == "ref":
        return mesh1.refinedmesh(ncell=spec[1], length=spec[2], ratio=spec[3], nratioa=spec[4], nratiob=spec[5])
    if k == "w":
        return mesh_from_widths(spec[1], spec[2] if len(spec) > 2 else 0.0)
    if k == "faces":
        return mesh_from_faces(spec[1])
    raise KeyError(k)


# ---------------------------------------------------------------------------
# alphabets
S_QUICK = [-2.0, -1.0, 0.0, 1.0, 3.0]
S_THORO = [-2.0, -1.0, -0.5, 0.0, 0.5, 1.0, 3.0]


def euler_state(rho, mach, p, gamma=1.4):
    c = math.sqrt(gamma * p / rho)
    return (rho, mach * c, p)


def euler_alphabet(rhos, machs, ps, gamma=1.4):
    return [euler_state(r, m, p, gamma) for r in rhos for m in machs for p in ps]


def prim_to_cons_1d(states, gamma):
    a = np.array(states, dtype=float).T    # 3 x n
    rho, u, p = a
    return [rho.copy(), rho * u, p / (gamma - 1.0) + 0.5 * rho * u * u]


def sw_state(h, fr, g=9.81):
    return (h, fr * math.sqrt(g * h))


def all_assignments(alphabet, n):
    """every assignment of alphabet letters to n cells (generator of index tuples)"""
    return itertools.product(range(len(alphabet)), repeat=n)


# ---------------------------------------------------------------------------
# generic 1D problem builder used by the operator-level checks
def bc_dict(spec):
    """spec: 'per' | 'sym' | ('dirichlet', prim list) | (name, params dict) -> dictionary for modeldisc"""
    if isinstance(spec, str):
        return {"type": spec}
    name, par = spec
    if name == "dirichlet":
        return {"type": "dirichlet", "prim": [np.float64(x) for x in par]}
    d = dict(par)
    d["type"] = name
    return d


_build = {"n": 0}


def build_1d(model_spec, flux, recon_name, mesh, bcl="per", bcr="per"):
    model = make_model(model_spec)
    _build["n"] += 1
    if bcl == "per" and bcr == "per" and (_build["n"] % 2 or INTERFERENCE["all"]):
        # periodic is the library's default: every other periodic discretisation is built the way most users do, without boundary arguments
        disc = modeldisc.fvm(model, mesh, recon(recon_name), numflux=flux)
    else:
        disc = modeldisc.fvm(model, mesh, recon(recon_name), numflux=flux, bcL=bc_dict(bcl), bcR=bc_dict(bcr))
    return model, disc


def cons_alphabet(kind, strength="mild", gamma=1.4, g=9.81):
    """list of per-cell conservative state vectors (np arrays of length neq)"""
    if kind in ("convection", "burgers"):
        vals = S_QUICK if strength != "thorough" else S_THORO
        return [np.array([v]) for v in vals]
    if kind in ("euler1d", "nozzle"):
        if strength == "mild":      # max/min < 2.25: unlimited extrapolations stay admissible
            prim = [euler_state(1.0, 0.0, 1.0, gamma), euler_state(2.0, 0.5, 1.0, gamma), euler_state(1.0, -0.5, 2.0, gamma),
                    euler_state(2.0, 1.5, 2.0, gamma), euler_state(1.5, -1.5, 1.5, gamma)]
        else:
            prim = [euler_state(1.0, 0.0, 1.0, gamma), euler_state(1e-3, 1.0, 1e-3, gamma), euler_state(1e3, -0.5, 1.0, gamma),
                    euler_state(1.0, 3.0, 1e3, gamma), euler_state(0.3, -3.0, 0.3, gamma), euler_state(1e3, 0.5, 1e3, gamma)]
        return [np.array([r, r * u, p / (gamma - 1.0) + 0.5 * r * u * u]) for r, u, p in prim]
    if kind == "shallowwater":
        if strength == "mild":
            prim = [sw_state(1.0, 0.0, g), sw_state(2.0, 0.5, g), sw_state(1.0, -0.5, g), sw_state(2.0, 1.5, g), sw_state(1.5, -1.5, g)]
        else:
            prim = [sw_state(1.0, 0.0, g), sw_state(1e-3, 1.0, g), sw_state(1e3, -0.5, g), sw_state(0.3, 3.0, g), sw_state(1.0, -3.0, g)]
        return [np.array([h, h * u]) for h, u in prim]
    raise KeyError(kind)


def field_from_letters(model, mesh, alphabet, idx, t=0.0):
    data = [np.array([alphabet[i][k] for i in idx], dtype=float) for k in range(model.neq)]
    return field.fdata(model, mesh, data, t=t)


def pattern_assignments(n, nlet=3):
    """larger meshes are not enumerated over all assignments but over all cyclic translates of three base patterns (impulse, step,
    repeating 0,1,..,nlet-1): every cell meets every local configuration of the patterns, at every distance from the ends"""
    base = [[1] + [0] * (n - 1), [1] * (n // 2) + [0] * (n - n // 2), [i % nlet for i in range(n)], [(i * i) % nlet for i in range(n)]]
    out = []
    seen = set()
    for b in base:
        for k in range(n):
            t = tuple(b[-k:] + b[:-k]) if k else tuple(b)
            if t not in seen:
                seen.add(t)
                out.append(t)
    return out


SIZES = [6, 7, 8, 13, 16, 33]


# ---------------------------------------------------------------------------
# integer-valued data (exactly representable in int32) for the "same values, integer-typed arrays" checks
def int_cons_lattice(kind):
    """list of conservative data arrays (one array per equation) with integer values, admissible for the model kind"""
    if kind in ("euler1d", "nozzle"):
        rows = [(r, m, E) for r in (1, 2, 5) for m in (-4, -1, 0, 1, 3) for E in (12, 40)]
    elif kind == "shallowwater":
        rows = [(h, q) for h in (1, 2, 5, 40) for q in (-9, -3, 0, 1, 7)]
    else:
        rows = [(v,) for v in (-7, -5, -2, -1, 1, 2, 3, 6, 9)]
    a = np.array(rows, float).T
    return [a[i].copy() for i in range(a.shape[0])]


def same_bits(xs, ys):
    xs = xs if isinstance(xs, (list, tuple)) else [xs]
    ys = ys if isinstance(ys, (list, tuple)) else [ys]
    return len(xs) == len(ys) and all(np.shape(x) == np.shape(y) and np.array_equal(np.asarray(x, float), np.asarray(y, float), equal_nan=True) for x, y in zip(xs, ys))


def huge_idx(n, k, nlet):
    """letter assignment for very large meshes (not enumerated: three fixed non-periodic patterns), regenerated from (n, k, nlet) on replay"""
    i = np.arange(n)
    if k == 0:
        return tuple(int(v) for v in (i * 7 + i // 5) % nlet)
    if k == 1:
        return tuple(int(v) for v in ((i * i) // 3 + i // 11) % nlet)
    return tuple(int(v) for v in (i // max(n // 7, 1)) % nlet)
