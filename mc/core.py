"""Shared plumbing of the model-checking harness: repository binding, worker
pool, result aggregation, violation records, known findings, evidence.

Nothing here knows about a particular property; see mc/props/cXX.py.
"""
import collections
import hashlib
import json
import multiprocessing as mp
import os
import re
import sys
import time

VERIF = os.path.dirname(os.path.dirname(os.path.abspath(__file__)))
REPO = os.path.abspath(os.environ.get("VERIF_REPO", "/repo"))
# development aid (mutant runs): write evidence/replays elsewhere; registered commands never set it
OUT = os.path.abspath(os.environ.get("VERIF_OUT", VERIF))

# bind `import flowdyn` to the working tree under test (sys.path wins over the
# editable-install finder, which sits at the end of sys.meta_path)
if REPO not in sys.path:
    sys.path.insert(0, REPO)


def bind_repo():
    import flowdyn
    here = os.path.dirname(os.path.abspath(flowdyn.__file__))
    if os.path.dirname(here) != REPO:
        raise SystemExit("HARNESS-ERROR flowdyn imported from %s, expected %s" % (here, REPO))
    return flowdyn


NCPU = int(os.environ.get("VERIF_NCPU", "0")) or (os.cpu_count() or 1)


# ---------------------------------------------------------------------------
class CallTimeout(Exception):
    pass


_LOAD = {"t": 0.0, "f": 1.0}


def load_factor():
    """how much slower than nominal this process currently runs (oversubscribed machine): a fixed micro-workload of small numpy
    operations, nominally 12 ms, is timed at most every 15 s; horizons are stretched by the factor so that a loaded machine
    cannot turn a slow but terminating call into a 'non-termination' observation"""
    now = time.time()
    if now - _LOAD["t"] > 15.0:
        import numpy as np
        a = np.arange(8.0)
        t0 = time.perf_counter()
        for _ in range(6000):
            a = a * 1.0000001 + 0.5
            a[1:] - a[:-1]
        dt = time.perf_counter() - t0
        _LOAD["f"] = max(1.0, dt / 0.012)
        _LOAD["t"] = time.time()
    return _LOAD["f"]


class time_limit:
    """bounded horizon for one call into the code under test: a driver loop that never meets its stop criterion must
    become an observation (exception), not a hung explorer.  Uses ITIMER_REAL, valid in the main thread of each worker."""

    def __init__(self, seconds):
        self.seconds = seconds * load_factor()

    def _raise(self, *a):
        raise CallTimeout("call did not return within %gs" % self.seconds)

    def __enter__(self):
        import signal
        self._old = signal.signal(signal.SIGALRM, self._raise)
        signal.setitimer(signal.ITIMER_REAL, self.seconds)

    def __exit__(self, *a):
        import signal
        signal.setitimer(signal.ITIMER_REAL, 0)
        signal.signal(signal.SIGALRM, self._old)
        return False


# ---------------------------------------------------------------------------
# json helpers
def jsonable(x):
    import numpy as np
    if isinstance(x, dict):
        return {str(k): jsonable(v) for k, v in x.items()}
    if isinstance(x, (list, tuple)):
        return [jsonable(v) for v in x]
    if isinstance(x, np.ndarray):
        return jsonable(x.tolist())
    if isinstance(x, (np.floating,)):
        x = float(x)
    if isinstance(x, (np.integer,)):
        return int(x)
    if isinstance(x, (np.bool_,)):
        return bool(x)
    if isinstance(x, float):
        if x != x:
            return {"__float__": "nan"}
        if x in (float("inf"), float("-inf")):
            return {"__float__": "inf" if x > 0 else "-inf"}
        return x
    if isinstance(x, complex):
        return [x.real, x.imag]
    if isinstance(x, (int, str, bool)) or x is None:
        return x
    return repr(x)


def unfloat(x):
    """inverse of the float encoding of jsonable (non-finite floats are written as {"__float__": "nan"|"inf"|"-inf"})"""
    if isinstance(x, dict) and list(x) == ["__float__"]:
        return float(x["__float__"])
    if isinstance(x, list):
        return [unfloat(v) for v in x]
    if isinstance(x, dict):
        return {k: unfloat(v) for k, v in x.items()}
    return x


def digest(obj, n=10):
    return hashlib.sha1(json.dumps(jsonable(obj), sort_keys=True).encode()).hexdigest()[:n]


# ---------------------------------------------------------------------------
class Res:
    """What one shard of an enumeration reports back (picklable)."""

    def __init__(self):
        self.evals = 0            # cases on which an oracle was evaluated
        self.nontrivial = 0       # distinct non-trivial cases (rule per property)
        self.census = collections.Counter()   # branch signatures, outcome classes
        self.viols = []           # dicts: site, what, case
        self.nviol = collections.Counter()    # site -> count
        self.samples = []
        self.states = set()       # canonical state hashes (model_checking level)
        self.transitions = 0
        self.traces = 0
        self.skipped = 0
        self.maxima = {}          # name -> worst normalised error seen (reported, not judged)

    MAXV = 3      # violation records kept per site and shard

    def violation(self, site, what, case):
        self.nviol[site] += 1
        if self.nviol[site] <= self.MAXV:
            self.viols.append({"site": site, "what": what, "case": jsonable(case)})

    def sample(self, case, cap=3):
        if len(self.samples) < cap:
            self.samples.append(jsonable(case))

    def worst(self, name, value):
        try:
            v = float(value)
        except Exception:
            return
        if v != v:
            v = float("inf")
        if v > self.maxima.get(name, -1.0):
            self.maxima[name] = v

    def merge(self, o):
        self.evals += o.evals
        self.nontrivial += o.nontrivial
        self.census.update(o.census)
        for v in o.viols:
            k = sum(1 for w in self.viols if w["site"] == v["site"])
            if k < self.MAXV:
                self.viols.append(v)
        self.nviol.update(o.nviol)
        for s in o.samples:
            if len(self.samples) < 8:
                self.samples.append(s)
        self.states |= o.states
        self.transitions += o.transitions
        self.traces += o.traces
        self.skipped += o.skipped
        for k, v in o.maxima.items():
            self.worst(k, v)
        return self


def _origin_in_repo(tb):
    """(file, function) of the innermost frame if the exception was raised inside the code under test, else None"""
    import traceback
    frames = traceback.extract_tb(tb)
    if frames and os.path.abspath(frames[-1].filename).startswith(REPO + os.sep):
        return os.path.relpath(frames[-1].filename, REPO), frames[-1].name
    # numpy/scipy raising on behalf of a flowdyn call (e.g. LinAlgError from a singular implicit system)
    for fr in reversed(frames):
        fn = os.path.abspath(fr.filename)
        if fn.startswith(REPO + os.sep):
            return os.path.relpath(fn, REPO), fr.name
        if fn.startswith(VERIF + os.sep):
            return None
    return None


def _reset_interference(shard, explorer=True):
    """object-interference counters (space.py) start every shard from a value that only depends on the shard: re-running the shard
    reproduces the same pattern of decoys and default arguments"""
    try:
        from . import space
        k = int(hashlib.sha1(repr(shard).encode()).hexdigest()[:6], 16) % 7
        space._decoy["n"] = k
        space._build["n"] = k
        if explorer:
            space.INTERFERENCE["all"] = False
    except Exception:
        pass


def _call(args):
    fn, shard = args
    _reset_interference(shard)
    try:
        r = fn(shard)
        if r.viols and not isinstance(fn, Pooled):
            import base64
            import pickle
            ref = {"module": fn.__module__, "fn": fn.__name__, "shard_pickle": base64.b64encode(pickle.dumps(shard)).decode()}
            for v in r.viols:
                v["_shard"] = ref
        return r
    except Exception as e:
        import base64
        import pickle
        import traceback
        r = Res()
        org = _origin_in_repo(e.__traceback__)
        if org is not None:
            # an exception raised inside flowdyn that the property module did not anticipate is an observation about the code, not a harness failure
            pid = fn.__module__.rsplit(".", 1)[-1].upper()
            r.violation("%s/uncaught-exception/%s:%s/%s" % (pid, org[0], org[1], type(e).__name__),
                        "%s raised inside the code under test while exploring shard %s: %s" % (type(e).__name__, repr(shard)[:200], traceback.format_exc()[-900:]),
                        {"kind": "shard-exception", "fn": fn.__name__, "module": fn.__module__, "shard_pickle": base64.b64encode(pickle.dumps(shard)).decode()})
            return r
        r.violation("HARNESS/exception", traceback.format_exc()[-1500:], {"shard": repr(shard)[:300]})
        r.harness_error = True
        return r


class Pooled:
    """wraps a shard function: the shard runs with object pooling on (space.POOL): model and reconstruction objects are reused across all
    the cases of the shard instead of being rebuilt for each one.  The oracles are unchanged, so a value that is only wrong because an object
    remembers something from an earlier case (stale cache keyed on too little) is reported; such a report is replayed by re-running the whole
    shard, since a single case on fresh objects would not show it."""

    def __init__(self, fn):
        self.fn = fn
        self.__name__ = "pooled:" + fn.__name__
        self.__module__ = fn.__module__

    def __call__(self, shard):
        import base64
        import pickle
        from . import space
        space.pool_reset(True)
        try:
            r = self.fn(shard)
        finally:
            space.pool_reset(False)
        pk = base64.b64encode(pickle.dumps(shard)).decode()
        for v in r.viols:
            v["site"] = v["site"].replace("/", "/reused-objects/", 1)
            v["what"] += " [objects (model, reconstruction) reused across the cases of the shard]"
            v["case"] = {"kind": "shard-replay", "module": self.fn.__module__, "fn": self.fn.__name__, "shard_pickle": pk, "pooled": True}
        r.nviol = collections.Counter({k.replace("/", "/reused-objects/", 1): n for k, n in r.nviol.items()})
        return r


def replay_shard(case):
    import base64
    import importlib
    import pickle
    fn = getattr(importlib.import_module(case["module"]), case["fn"])
    if case.get("pooled"):
        fn = Pooled(fn)
    out = _call((fn, pickle.loads(base64.b64decode(case["shard_pickle"]))))
    try:
        from . import space
        space.INTERFERENCE["all"] = True
    except Exception:
        pass
    return [(v["site"], v["what"]) for v in out.viols]


def replay_shard_exception(case):
    import base64
    import importlib
    import pickle
    fn = getattr(importlib.import_module(case["module"]), case["fn"])
    out = _call((fn, pickle.loads(base64.b64decode(case["shard_pickle"]))))
    return [(v["site"], v["what"]) for v in out.viols if "/uncaught-exception/" in v["site"]]


class Ctx:
    def __init__(self, pid, tier, seed):
        self.pid, self.tier, self.seed = pid, tier, seed
        self.res = Res()
        self.parts = collections.OrderedDict()   # sub-check name -> summary dict
        self.harness_errors = []
        self.t0 = time.time()
        self.notes = []

    @property
    def thorough(self):
        return self.tier == "thorough"

    def pmap(self, name, fn, shards, procs=None):
        """run fn over shards in a fork pool; the set of shards (hence the
        explored space and the verdict) does not depend on the seed, only the
        order in which they are handed out does."""
        shards = list(shards)
        n = len(shards)
        if n == 0:
            return Res()
        rot = self.seed % n
        order = shards[rot:] + shards[:rot]
        t0 = time.time()
        part = Res()
        procs = min(procs or NCPU, n)
        if procs <= 1:
            outs = [_call((fn, s)) for s in order]
        else:
            with mp.get_context("fork").Pool(procs) as pool:
                outs = pool.map(_call, [(fn, s) for s in order], chunksize=1)
        for o in outs:
            if getattr(o, "harness_error", False):
                self.harness_errors.append(o.viols[0]["what"])
            part.merge(o)
        self.parts[name] = {
            "shards": n, "evaluations": part.evals, "nontrivial": part.nontrivial,
            "violations": sum(part.nviol.values()), "skipped_inadmissible": part.skipped,
            "wall_s": round(time.time() - t0, 2),
            "census": dict(sorted(part.census.items())),
            "worst": {k: float("%.3g" % v) for k, v in sorted(part.maxima.items())},
        }
        if part.transitions:
            self.parts[name].update(states=len(part.states), transitions=part.transitions,
                                    traces=part.traces)
        self.res.merge(part)
        return part

    def run_inline(self, name, fn, arg=None):
        return self.pmap(name, fn, [arg], procs=1)


# ---------------------------------------------------------------------------
# known findings
def load_findings():
    path = os.path.join(VERIF, "known_findings.json")
    if not os.path.exists(path):
        return []
    with open(path) as f:
        return json.load(f).get("findings", [])


def site_slug(site):
    return re.sub(r"[^A-Za-z0-9_.+-]+", "_", site)[:120]


def finish(ctx, module, level, rule, assumptions, extra_cov=None):
    """Second-guess, classify, print, write evidence; returns exit status."""
    pid = ctx.pid
    res = ctx.res
    findings = [f for f in load_findings() if f["property"] == pid]
    status = 0
    out_dir = os.path.join(OUT, "replays", pid)
    reported, known_hit = [], []
    by_site = collections.OrderedDict()
    for v in res.viols:
        by_site.setdefault(v["site"], v)
    MAXREP = int(os.environ.get("VERIF_MAX_SITES", "40"))
    try:
        from . import space as _space
        _space.INTERFERENCE["all"] = True      # replays: strongest, deterministic object interference (see space.py)
    except Exception:
        pass
    more = []
    queue = [(site, v) for site, v in by_site.items() if not site.startswith("HARNESS/")]
    shard_cache = {}
    while queue:
        # candidates are judged in rounds so that the shard-level fallbacks of one round run in parallel, each shard once
        room = max(MAXREP - len(reported), 0)
        batch, rest = [], []
        for site, v in queue:
            if [f for f in findings if f["site"] == site] or len([b for b in batch if not b[2]]) < room:
                batch.append((site, v, bool([f for f in findings if f["site"] == site])))
            else:
                rest.append((site, v))
        if not batch:
            more += [site for site, v in rest]
            break
        queue = rest
        judged = []
        for site, v, _k in batch:
            # every candidate is re-executed twice on fresh objects before it is believed
            try:
                rp = {"shard-exception": replay_shard_exception, "shard-replay": replay_shard}.get(v["case"].get("kind"), module.replay)
                key = digest(v["case"]) if v["case"].get("kind") in ("shard-exception", "shard-replay") else None
                if key is not None and key in shard_cache:
                    r1, r2 = shard_cache[key]
                else:
                    r1 = rp(unfloat(v["case"]))
                    r2 = rp(unfloat(v["case"]))
                    if key is not None:
                        shard_cache[key] = (r1, r2)
            except Exception as e:  # pragma: no cover
                import traceback
                ctx.harness_errors.append("replay of %s raised: %s" % (site, traceback.format_exc()[-800:]))
                continue
            judged.append((site, v, sorted(x[0] for x in r1), sorted(x[0] for x in r2)))
        # not reproduced on the single case with full interference: the observation may depend on the pattern of object interference the
        # explorer produced in that shard; re-run the shard (same pattern by construction), twice - every such shard once, in parallel
        need = collections.OrderedDict()
        for site, v, s1, s2 in judged:
            if s1 == s2 and site not in s1 and "_shard" in v:
                sc = dict(v["_shard"], kind="shard-replay", pooled=False)
                if digest(sc) not in shard_cache:
                    need[digest(sc)] = sc
        if need:
            jobs = [sc for sc in need.values() for _ in (0, 1)]
            if len(need) == 1:
                outs = [replay_shard(j) for j in jobs]
            else:
                with mp.get_context("fork").Pool(min(NCPU, len(jobs))) as pool:
                    outs = pool.map(replay_shard, jobs, chunksize=1)
            for i, k in enumerate(need):
                shard_cache[k] = (outs[2 * i], outs[2 * i + 1])
        for site, v, s1, s2 in judged:
            if s1 == s2 and site not in s1 and "_shard" in v:
                sc = dict(v["_shard"], kind="shard-replay", pooled=False)
                q1, q2 = shard_cache[digest(sc)]
                if site in [x[0] for x in q1] and site in [x[0] for x in q2]:
                    v = dict(v, case=sc, what=v["what"] + " [reproduced by re-running its shard, not by the single case: depends on other objects constructed in between]")
                    by_site[site] = v
                    s1 = s2 = [site]
            if s1 != s2 or site not in s1:
                ctx.harness_errors.append("non-reproducible observation at %s: explorer saw it, replays saw %s / %s"
                                          % (site, s1[:6], s2[:6]))
                continue
            known = [f for f in findings if f["site"] == site]
            if known:
                known_hit.append(site)
                print("KNOWN-FINDING: property=%s %s [site %s, %d case(s)]" % (pid, known[0]["what"], site, res.nviol[site]))
                continue
            if len(reported) >= MAXREP:
                more.append(site)
                continue
            os.makedirs(out_dir, exist_ok=True)
            path = os.path.join(out_dir, "%s-%s.json" % (site_slug(site), digest(v["case"])))
            with open(path, "w") as f:
                json.dump({"property": pid, "site": site, "what": v["what"], "count_this_run": res.nviol[site],
                           "case": v["case"], "replay_cmd": "./check %s --replay %s" % (pid, os.path.relpath(path, OUT))},
                          f, indent=1, sort_keys=True)
            reported.append(site)
            print("VIOLATION property=%s replay=%s" % (pid, path))
            print("  site=%s count=%d :: %s" % (site, res.nviol[site], v["what"][:400]))
            status = 1
    if more:
        print("  ... and %d more violating sites (listed in the evidence file, not replayed)" % len(more))
    for e in ctx.harness_errors:
        print("HARNESS-ERROR property=%s %s" % (pid, e))
        status = max(status, 2)
    wall = time.time() - ctx.t0
    cov = {
        "evaluations": int(res.evals),
        "distinct_nontrivial": int(res.nontrivial),
        "rule": rule,
        "samples": res.samples[:6] if res.samples else [],
        "exhaustive": True,
        "skipped_inadmissible": int(res.skipped),
        "parts": ctx.parts,
        "known_findings_hit": known_hit,
        "violating_sites": reported,
        "violating_sites_not_replayed": more,
        "repo": REPO,
        "notes": ctx.notes,
    }
    if level == "model_checking":
        cov["states"] = len(res.states)
        cov["transitions"] = int(res.transitions)
        cov["traces_validated_against_impl"] = int(res.traces)
    if extra_cov:
        cov.update(extra_cov)
    ev = {"property_id": pid, "tier": ctx.tier, "seed": int(ctx.seed), "level": level,
          "coverage": jsonable(cov), "assumptions": assumptions, "wall_s": round(wall, 2),
          "violations": len(reported)}
    os.makedirs(os.path.join(OUT, "evidence"), exist_ok=True)
    with open(os.path.join(OUT, "evidence", pid + ".json"), "w") as f:
        json.dump(ev, f, indent=1, sort_keys=True)
    print("%s tier=%s seed=%d evaluations=%d nontrivial=%d states=%d transitions=%d violations=%d known=%d wall=%.1fs"
          % (pid, ctx.tier, ctx.seed, res.evals, res.nontrivial, len(res.states), res.transitions,
             len(reported), len(known_hit), wall))
    for name, p in ctx.parts.items():
        top = sorted(p["worst"].items(), key=lambda kv: -kv[1])[:4]
        print("  part %-28s evals=%-9d nontrivial=%-9d viol=%-5d %.1fs worst=%s" % (
            name, p["evaluations"], p["nontrivial"], p["violations"], p["wall_s"], dict(top)))
    return status
