"""Packed stencil windows (shape C).

All k^w windows over a k-letter alphabet are laid side by side in one periodic
mesh of w*k^w cells; one call of the real, vectorised rhs/step evaluates them all:
the centre cell of block j sees exactly window j (w = 3 for first-order, 5 for
every other 1D reconstruction; the periodic seam only touches the outer cells of
the first and last block, never a centre's stencil).
"""
import numpy as np


def windows(k, w, lo=0, hi=None):
    """index array (n, w) of the windows number lo..hi-1 in lexicographic order"""
    hi = k ** w if hi is None else hi
    j = np.arange(lo, hi)
    out = np.empty((j.size, w), dtype=np.int64)
    for c in range(w - 1, -1, -1):
        out[:, c] = j % k
        j = j // k
    return out


def centres(nwin, w):
    return np.arange(nwin) * w + w // 2


def window_min(a, w):
    """per-block minimum of a per-cell array (n*w,) broadcast back to cells"""
    m = a.reshape(-1, w).min(axis=1)
    return np.repeat(m, w)
