"""CLI: python -m mc.main <ID> [--tier quick|thorough] [--replay file]"""
import argparse
import importlib
import json
import os
import sys

from . import core


def main(argv=None):
    ap = argparse.ArgumentParser()
    ap.add_argument("pid")
    ap.add_argument("--tier", default=os.environ.get("VERIF_TIER", "quick"), choices=["quick", "thorough"])
    ap.add_argument("--replay", default=None)
    ap.add_argument("--only", default=None, help="comma list of sub-check names (development aid)")
    a = ap.parse_args(argv)
    pid = a.pid.upper()
    core.bind_repo()
    import numpy as np
    np.seterr(all="ignore")
    mod = importlib.import_module("mc.props." + pid.lower())
    if a.replay:
        from . import space as _space
        _space.INTERFERENCE["all"] = True
        with open(a.replay) as f:
            rec = json.load(f)
        case = core.unfloat(rec["case"] if "case" in rec and "site" in rec else rec)
        out = {"shard-exception": core.replay_shard_exception, "shard-replay": core.replay_shard}.get(case.get("kind"), mod.replay)(case)
        if out:
            for site, what in out:
                print("VIOLATION property=%s replay=%s" % (pid, os.path.abspath(a.replay)))
                print("  site=%s :: %s" % (site, what[:600]))
            return 1
        print("%s replay: no violation on this tree" % pid)
        return 0
    seed = int(os.environ.get("VERIF_SEED", "0") or 0)
    ctx = core.Ctx(pid, a.tier, seed)
    ctx.only = set(a.only.split(",")) if a.only else None
    mod.run(ctx)
    return core.finish(ctx, mod, mod.LEVEL, mod.RULE, mod.ASSUMPTIONS,
                       getattr(mod, "extra_coverage", lambda c: None)(ctx))


if __name__ == "__main__":
    sys.exit(main())
