"""Exact Riemann solver for the 1D Euler equations (ideal gas), after Toro,
'Riemann Solvers and Numerical Methods for Fluid Dynamics', chapter 4.  Written
independently of flowdyn and of aerokit; used as reference side only."""
import numpy as np


def _f(p, rho, pk, g):
    a = np.sqrt(g * pk / rho)
    if p > pk:       # shock
        A = 2.0 / ((g + 1) * rho)
        B = (g - 1) / (g + 1) * pk
        return (p - pk) * np.sqrt(A / (p + B)), np.sqrt(A / (p + B)) * (1 - 0.5 * (p - pk) / (B + p))
    return 2 * a / (g - 1) * ((p / pk) ** ((g - 1) / (2 * g)) - 1), 1.0 / (rho * a) * (p / pk) ** (-(g + 1) / (2 * g))


def star(WL, WR, g=1.4):
    rl, ul, pl = WL
    rr, ur, pr = WR
    al, ar = np.sqrt(g * pl / rl), np.sqrt(g * pr / rr)
    if 2 * (al + ar) / (g - 1) <= ur - ul:
        raise ValueError("vacuum")
    p = max(1e-8, 0.5 * (pl + pr) - 0.125 * (ur - ul) * (rl + rr) * (al + ar))
    for _ in range(200):
        fl, dl = _f(p, rl, pl, g)
        fr, dr = _f(p, rr, pr, g)
        pn = p - (fl + fr + ur - ul) / (dl + dr)
        if pn <= 0:
            pn = 1e-10
        if abs(pn - p) <= 1e-15 * 0.5 * (pn + p):
            p = pn
            break
        p = pn
    fl, _ = _f(p, rl, pl, g)
    fr, _ = _f(p, rr, pr, g)
    return p, 0.5 * (ul + ur) + 0.5 * (fr - fl)


def sample(WL, WR, xi, g=1.4):
    """primitive solution (rho,u,p) at the similarity coordinates xi = x/t (array)"""
    rl, ul, pl = WL
    rr, ur, pr = WR
    al, ar = np.sqrt(g * pl / rl), np.sqrt(g * pr / rr)
    pm, um = star(WL, WR, g)
    xi = np.asarray(xi, float)
    out = np.zeros((3, xi.size))
    gm, gp = g - 1, g + 1
    for i, s in enumerate(xi):
        if s <= um:      # left of the contact
            if pm > pl:  # left shock
                sl = ul - al * np.sqrt(gp / (2 * g) * pm / pl + gm / (2 * g))
                if s <= sl:
                    w = (rl, ul, pl)
                else:
                    w = (rl * ((pm / pl + gm / gp) / (gm / gp * pm / pl + 1)), um, pm)
            else:        # left rarefaction
                shl = ul - al
                am = al * (pm / pl) ** (gm / (2 * g))
                stl = um - am
                if s <= shl:
                    w = (rl, ul, pl)
                elif s >= stl:
                    w = (rl * (pm / pl) ** (1 / g), um, pm)
                else:
                    c = 2 / gp * (al + gm / 2 * (ul - s))
                    w = (rl * (c / al) ** (2 / gm), 2 / gp * (al + gm / 2 * ul + s), pl * (c / al) ** (2 * g / gm))
        else:
            if pm > pr:
                sr = ur + ar * np.sqrt(gp / (2 * g) * pm / pr + gm / (2 * g))
                if s >= sr:
                    w = (rr, ur, pr)
                else:
                    w = (rr * ((pm / pr + gm / gp) / (gm / gp * pm / pr + 1)), um, pm)
            else:
                shr = ur + ar
                am = ar * (pm / pr) ** (gm / (2 * g))
                str_ = um + am
                if s >= shr:
                    w = (rr, ur, pr)
                elif s <= str_:
                    w = (rr * (pm / pr) ** (1 / g), um, pm)
                else:
                    c = 2 / gp * (ar - gm / 2 * (ur - s))
                    w = (rr * (c / ar) ** (2 / gm), 2 / gp * (-ar + gm / 2 * ur + s), pr * (c / ar) ** (2 * g / gm))
        out[:, i] = w
    return out


def wave_speeds(WL, WR, g=1.4):
    """list of the similarity coordinates of every discontinuity / rarefaction edge (to keep sample points away from them)"""
    rl, ul, pl = WL
    rr, ur, pr = WR
    al, ar = np.sqrt(g * pl / rl), np.sqrt(g * pr / rr)
    pm, um = star(WL, WR, g)
    gm, gp = g - 1, g + 1
    s = [um]
    if pm > pl:
        s.append(ul - al * np.sqrt(gp / (2 * g) * pm / pl + gm / (2 * g)))
    else:
        s += [ul - al, um - al * (pm / pl) ** (gm / (2 * g))]
    if pm > pr:
        s.append(ur + ar * np.sqrt(gp / (2 * g) * pm / pr + gm / (2 * g)))
    else:
        s += [ur + ar, um + ar * (pm / pr) ** (gm / (2 * g))]
    return sorted(s)
