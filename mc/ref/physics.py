"""Boring reference formulas written independently of flowdyn (closed forms from
the textbooks): physical fluxes, Roe averages, isentropic relations."""
import numpy as np


# --- Euler (ideal gas) -----------------------------------------------------
def euler_c(rho, p, g):
    return np.sqrt(g * p / rho)


def euler_H(rho, u2, p, g):
    """total enthalpy from density, squared velocity magnitude, pressure"""
    return g / (g - 1.0) * p / rho + 0.5 * u2


def euler_flux(rho, u, p, g):
    H = euler_H(rho, u * u, p, g)
    return [rho * u, rho * u * u + p, rho * u * H]


def euler_flux_2d(rho, ux, uy, p, g, nx, ny):
    un = ux * nx + uy * ny
    H = euler_H(rho, ux * ux + uy * uy, p, g)
    return [rho * un, rho * un * ux + p * nx, rho * un * uy + p * ny, rho * un * H]


def roe_average(rhoL, uL, pL, rhoR, uR, pR, g):
    wl, wr = np.sqrt(rhoL), np.sqrt(rhoR)
    HL, HR = euler_H(rhoL, uL * uL, pL, g), euler_H(rhoR, uR * uR, pR, g)
    u = (wl * uL + wr * uR) / (wl + wr)
    H = (wl * HL + wr * HR) / (wl + wr)
    c = np.sqrt((g - 1.0) * (H - 0.5 * u * u))
    return u, c


def mach2_from_ptot(ptot, p, g):
    return 2.0 / (g - 1.0) * ((ptot / p) ** ((g - 1.0) / g) - 1.0)


def ptot_of(rho, u2, p, g):
    m2 = u2 / (g * p / rho)
    return p * (1.0 + 0.5 * (g - 1.0) * m2) ** (g / (g - 1.0))


def rttot_of(rho, u2, p, g):
    m2 = u2 / (g * p / rho)
    return p / rho * (1.0 + 0.5 * (g - 1.0) * m2)


def entropy_of(rho, p, g):
    return np.log(p / rho ** g) / (g - 1.0)


def prim2cons_1d(rho, u, p, g):
    return [rho, rho * u, p / (g - 1.0) + 0.5 * rho * u * u]


def cons2prim_1d(q, g):
    rho, m, E = q
    u = m / rho
    return [rho, u, (g - 1.0) * (E - 0.5 * rho * u * u)]


# --- shallow water -----------------------------------------------------------
def sw_flux(h, u, g):
    return [h * u, h * u * u + 0.5 * g * h * h]


def sw_c(h, g):
    return np.sqrt(g * h)


def sw_roe(hL, uL, hR, uR, g):
    wl, wr = np.sqrt(hL), np.sqrt(hR)
    u = (wl * uL + wr * uR) / (wl + wr)
    c = np.sqrt(0.5 * g * (hL + hR))
    return u, c
