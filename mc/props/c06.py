"""C06 - implicit integrators solve the linearised theta/BDF2 system exactly.

Shape B: linear convection x unlimited reconstructions x every mesh of a small
family x CFL {0.01,0.5,1,10,100} x every field of an alphabet (all unit impulses,
ones, zero, all vectors of S^n, rescaled by 1e6/1e-6): the real step() against the
exact resolvent built from the operator matrix read off the real rhs; two steps
with different dt on one object; gear over 4 steps; Fourier amplification factors
and non-growth; temporal order from the defect of the scalar amplification factor;
the finite-difference Jacobian of nonlinear models against a Richardson-extrapolated
central difference of the real rhs.
"""
import itertools

import numpy as np

from .. import core, space
from .c13 import generic_alphabet

ID = "C06"
LEVEL = "exploration"
RULE = ("linear: a in {1,-1.5} x 11 unlimited reconstructions x 9 meshes (n<=4, thorough 6; uniform, refined, width vectors) x periodic/dirichlet x CFL "
        "{0.01,0.5,1,10,100} x fields {all unit impulses, ones, zero, all S^n vectors for n<=3, x1e6, x1e-6} x {implicit, backwardeuler, trapezoidal, "
        "cranknicolson, gear}; Fourier modes on uniform periodic meshes n in {4,6,8}; scalar defect ladder z=-2^-k; Jacobian: {burgers, euler1d hllc/hlle, "
        "shallowwater hll/rusanov} x 16 reconstructions x {per, sym/dirichlet} x generic (tie-free) states on n=4. non-trivial = non-constant field")
ASSUMPTIONS = ["fields between alphabet letters are not explored (the step is linear in the field on this model, so impulses span all fields)",
               "'linear-solver accuracy': tau = 1e-6 (1+CFL) relative (forward-difference Jacobian with perturbation sqrt(eps) mean|q|, amplified by dt, + LAPACK)",
               "the Jacobian is compared on states where the space operator is differentiable (generic, tie-free data); at kinks a one-sided derivative is all a finite difference can give",
               "amplification factors are observed on Fourier modes through step(); the scalar propagator() helper raises AttributeError for implicit classes (its stand-in model has no 'islinear') and is not part of the statement"]
EPS = np.finfo(float).eps
LIN = 2e-7
CFLS = [0.01, 0.5, 1.0, 10.0, 100.0]


def theta_of(cls):
    if issubclass(cls, space.integ.trapezoidal):
        return 0.5
    if issubclass(cls, space.integ.implicit):
        return 1.0
    return None


def op_matrix(disc, model, mesh):
    n = mesh.ncell
    A = np.zeros((n, n))
    r0 = np.asarray(disc.rhs(space.field.fdata(model, mesh, [np.zeros(n)]))[0], float).copy()    # dirichlet: affine part
    for j in range(n):
        e = np.zeros(n)
        e[j] = 1.0
        A[:, j] = np.asarray(disc.rhs(space.field.fdata(model, mesh, [e]))[0], float) - r0
    return A, r0


def exact_step(A, r0, Q, dt, theta):
    n = Q.size
    I = np.eye(n)
    # dQ/dt = A Q + r0 ;  (I - theta dt A) dQ = dt (A Q + r0)
    return Q + np.linalg.solve(I - theta * dt * A, dt * (A @ Q + r0))


def exact_step_array(A, r0, Q, dtv, theta):
    """per-cell time steps: (D^-1 - theta A) dQ = A Q + r0 with D = diag(dt_i): each cell's own equation is divided by its own step"""
    return Q + np.linalg.solve(np.diag(1.0 / dtv) - theta * A, A @ Q + r0)


def fields(n):
    out = [("zero", np.zeros(n)), ("ones", np.ones(n))]
    for j in (range(n) if n <= 8 else (0, n // 3, n - 1)):      # size ladder: three impulses and the generic vectors below
        e = np.zeros(n)
        e[j] = 1.0
        out.append(("impulse%d" % j, e))
    if n <= 3:
        for idx in itertools.product(range(5), repeat=n):
            if len(set(idx)) > 1:
                out.append(("S%r" % (idx,), np.array([space.S_QUICK[i] for i in idx])))
    v = np.array([space.S_QUICK[(3 * i + 1) % 5] for i in range(n)], float)
    out += [("x1e6", 1e6 * v), ("x1e-6", 1e-6 * v)]
    return out


def check_linear(a, rname, mspec, bc, res=None, src=False):
    mesh = space.mesh_spec(mspec)
    n = mesh.ncell
    if bc == "per":
        bcs = ("per", "per")
    else:
        bcs = (("dirichlet", [0.0]), ("dirichlet", [0.0]))      # homogeneous: dQ/dt = A Q stays linear (the statement is about linear problems)
    if src:
        # a position-dependent linear damping attached to the linear model (model.source): dQ/dt = (A_conv - diag k(x)) Q is still a linear problem
        model = space.convection.model(a)
        model.source = [lambda x, q: -(0.6 + 0.5 * np.cos(2.1 * np.asarray(x))) * q[0]]
        disc = space.modeldisc.fvm(model, mesh, space.recon(rname), bcL=space.bc_dict(bcs[0]), bcR=space.bc_dict(bcs[1]))
    else:
        model, disc = space.build_1d(("convection", a), None, rname, mesh, bcs[0], bcs[1])
    A, r0 = op_matrix(disc, model, mesh)
    out = []
    dxmin = float(np.min(mesh.vol()))
    # linearity of the operator itself
    u = np.array([space.S_QUICK[(2 * i + 1) % 5] for i in range(n)], float)
    r = np.asarray(disc.rhs(space.field.fdata(model, mesh, [u.copy()]))[0], float)
    if not np.abs(r - (A @ u + r0)).max() <= 64 * EPS * (abs(a) / dxmin * np.abs(u).max() * n + np.abs(r0).max() + 1e-300):
        out.append(("C06/linear/operator-not-affine", "convection a=%g %s mesh %r %s: rhs(u) != A u + r0 with A read off the unit impulses" % (a, rname, mspec, bc)))
        return out
    for iname, cls in space.implicit_integrators().items():
        th = theta_of(cls)
        gear = space.is_multistep(cls)
        if th is None:
            if res is not None:
                res.census["unjudged-implicit-class/%s" % iname] += 1
            continue
        for cfl in CFLS:
            dt = cfl * dxmin / abs(a)
            for fname, Q0 in fields(n):
                sc = np.abs(Q0).max() + (np.abs(r0).max() * dt if bc != "per" else 0.0)
                # the library's Jacobian is a forward difference with perturbation sqrt(eps) x mean|q|: for a peaked field (one impulse among
                # n cells: max/mean = n) its rounding error grows like max|q|/mean|q|; the allowance follows it beyond a ratio of 8
                mq = np.abs(Q0).mean()
                tau = LIN * max(1.0, (np.abs(Q0).max() / mq / 8.0) if mq > 0 else 1.0)
                solver = cls(mesh, disc)
                f = space.field.fdata(model, mesh, [Q0.copy()], t=0.25)
                site = "C06/linear/%s" % iname
                try:
                    with np.errstate(all="ignore"):
                        solver.step(f, dt)
                except Exception as e:
                    out.append((site + "/exception", "%s a=%g %s mesh %r %s cfl %g field %s: step raised %r" % (iname, a, rname, mspec, bc, cfl, fname, e)))
                    continue
                want = exact_step(A, r0, Q0, dt, th)
                err = np.abs(f.data[0] - want).max() / (sc + 1e-300) if sc > 0 else np.abs(f.data[0]).max()
                if res is not None:
                    res.evals += 1
                    res.worst("linear-step/tau", err / (tau * (1 + cfl)))
                if not err <= tau * (1 + cfl):
                    out.append((site + "/first-step", "%s a=%g %s mesh %r %s cfl %g field %s: step gives %r, the theta=%g system gives %r (relative error %.3g)" % (
                        iname, a, rname, mspec, bc, cfl, fname, f.data[0].tolist(), th, want.tolist(), err)))
                    continue
                if not abs(f.time - (0.25 + dt)) <= 4 * EPS * (0.25 + dt):
                    out.append((site + "/time", "%s cfl %g: time advanced from 0.25 to %r, dt=%r" % (iname, cfl, f.time, dt)))
                if fname.startswith("S") and cfl not in (0.5, 10.0):
                    continue
                # per-cell time-step arrays (what the dtlocal directive hands to step): the local CFL steps of a non-uniform mesh and a generic pattern
                if n >= 2 and not fname.startswith("S"):
                    for aname, dtv in (("local", cfl * np.asarray(mesh.vol(), float) / abs(a)), ("pattern", dt * (1.0 + 0.5 * (np.arange(n) % 3)))):
                        if np.all(dtv == dtv[0]):
                            continue
                        sv = cls(mesh, disc)
                        fa = space.field.fdata(model, mesh, [Q0.copy()], t=0.25)
                        try:
                            with np.errstate(all="ignore"):
                                sv.step(fa, dtv.copy())
                        except Exception as e:
                            out.append((site + "/exception", "%s step with a dt array raised %r" % (iname, e)))
                            continue
                        wa = exact_step_array(A, r0, Q0, dtv, th)
                        err = np.abs(fa.data[0] - wa).max() / (sc + 1e-300) if sc > 0 else np.abs(fa.data[0]).max()
                        if res is not None:
                            res.evals += 1
                            res.worst("linear-step-dt-array/tau", err / (tau * (1 + cfl * dtv.max() / dtv.min())))
                        if not err <= tau * (1 + cfl * dtv.max() / dtv.min()):
                            out.append((site + "/dt-array-%s" % aname, "%s a=%g %s mesh %r %s cfl %g field %s: step with the per-cell dt array %r is off (D^-1 - theta A) dQ = A Q by %.3g" % (
                                iname, a, rname, mspec, bc, cfl, fname, dtv.tolist(), err)))
                        elif not abs(fa.time - (0.25 + dtv.min())) <= 4 * EPS * (0.25 + dtv.min()):
                            out.append((site + "/dt-array-time", "%s: time advanced to %r with min dt %r" % (iname, fa.time, dtv.min())))
                        elif gear:
                            Qm, Qn = Q0.copy(), fa.data[0].copy()
                            with np.errstate(all="ignore"):
                                sv.step(fa, dtv.copy())
                            w2 = Qn + np.linalg.solve(1.5 * np.diag(1.0 / dtv) - A, A @ Qn + r0 + 0.5 * (Qn - Qm) / dtv)
                            err = np.abs(fa.data[0] - w2).max() / (max(np.abs(Qn).max(), sc) + 1e-300)
                            if not err <= tau * (1 + cfl * dtv.max() / dtv.min()):
                                out.append((site + "/dt-array-bdf2", "gear a=%g %s mesh %r cfl %g field %s: second step with a dt array is off the BDF2 system by %.3g" % (a, rname, mspec, cfl, fname, err)))
                if not gear:
                    # second step on the same object with another dt: the linear system must be rebuilt for the new dt
                    Q1 = f.data[0].copy()
                    dt2 = 0.37 * dt
                    with np.errstate(all="ignore"):
                        solver.step(f, dt2)
                    want2 = exact_step(A, r0, Q1, dt2, th)
                    err = np.abs(f.data[0] - want2).max() / (sc + 1e-300) if sc > 0 else np.abs(f.data[0]).max()
                    if res is not None:
                        res.evals += 1
                        res.worst("linear-second-step/tau", err / (tau * (1 + cfl)))
                    if not err <= tau * (1 + cfl):
                        out.append((site + "/second-step-other-dt", "%s a=%g %s mesh %r %s cfl %g field %s: second step on the same object with dt x0.37 is off the theta system by %.3g" % (
                            iname, a, rname, mspec, bc, cfl, fname, err)))
                else:
                    # gear: BDF2 recurrence (3Q+ - 4Q + Q-)/2 = dt (A Q+ + r0) from the two previous actual states, 3 more steps
                    Qm, Qn = Q0.copy(), f.data[0].copy()
                    for k in range(2, 5):
                        with np.errstate(all="ignore"):
                            solver.step(f, dt)
                        wantk = np.linalg.solve(1.5 * np.eye(n) - dt * A, 2.0 * Qn - 0.5 * Qm + dt * r0)
                        sck = max(np.abs(Qn).max(), np.abs(Qm).max(), sc) + 1e-300
                        err = np.abs(f.data[0] - wantk).max() / sck if sc > 0 else np.abs(f.data[0]).max()
                        if res is not None:
                            res.evals += 1
                            res.worst("gear-bdf2/tau", err / (tau * (1 + cfl)))
                        if not err <= tau * (1 + cfl):
                            out.append((site + "/bdf2-step%d" % min(k, 3), "gear a=%g %s mesh %r %s cfl %g field %s: step %d is off the BDF2 recurrence by %.3g" % (
                                a, rname, mspec, bc, cfl, fname, k, err)))
                            break
                        if not abs(f.time - (0.25 + k * dt)) <= 8 * EPS * (0.25 + k * dt):
                            out.append((site + "/time", "gear cfl %g: time %r after %d steps of %r" % (cfl, f.time, k, dt)))
                            break
                        Qm, Qn = Qn, f.data[0].copy()
    return out


def check_gear_solve(a, rname, mspec, res=None):
    """gear driven by solve(): whatever save times are asked for (one inside the very first step, none), the state after 3 iterations is the
    Crank-Nicolson start followed by two BDF2 steps of the linear problem (read from the solver's final state Qn)"""
    mesh = space.mesh_spec(mspec)
    n = mesh.ncell
    model, disc = space.build_1d(("convection", a), None, rname, mesh, "per", "per")
    A, r0 = op_matrix(disc, model, mesh)
    out = []
    dxmin = float(np.min(mesh.vol()))
    Q0 = np.array([space.S_QUICK[(3 * i + 1) % 5] for i in range(n)], float)
    I = np.eye(n)
    for cfl in (0.5, 10.0):
        dt = cfl * dxmin / abs(a)
        q1 = Q0 + np.linalg.solve(I - 0.5 * dt * A, dt * (A @ Q0))
        q2 = np.linalg.solve(1.5 * I - dt * A, 2.0 * q1 - 0.5 * Q0)
        q3 = np.linalg.solve(1.5 * I - dt * A, 2.0 * q2 - 0.5 * q1)
        for label, ts in (("no save times", []), ("a save time inside the first step", [0.4 * dt]), ("save times inside the first and second step", [0.4 * dt, 1.7 * dt])):
            solver = space.integ.gear(mesh, disc)
            f = space.field.fdata(model, mesh, [Q0.copy()])
            with np.errstate(all="ignore"), core.time_limit(20.0):
                solver.solve(f, cfl, ts, stop={"maxit": 3, "tottime": 1e30})
            got = np.asarray(solver.Qn.data[0], float)
            err = np.abs(got - q3).max() / np.abs(Q0).max()
            if res is not None:
                res.evals += 1
                res.worst("gear-solve/tau", err / (LIN * (1 + cfl)))
            if not err <= LIN * (1 + cfl):
                out.append(("C06/linear/gear/solve-driver", "gear a=%g %s mesh %r cfl %g, solve with %s: the state after 3 iterations is off the Crank-Nicolson + BDF2 recurrence by %.3g" % (
                    a, rname, mspec, cfl, label, err)))
                break
    return out


def check_fourier(a, rname, n, res=None):
    mesh = space.mesh1.unimesh(ncell=n, length=float(n))
    model, disc = space.build_1d(("convection", a), None, rname, mesh)
    A, _ = op_matrix(disc, model, mesh)
    out = []
    x = np.arange(n)
    for iname, cls in space.implicit_integrators().items():
        th = theta_of(cls)
        if th is None or space.is_multistep(cls):
            continue
        for cfl in CFLS:
            dt = cfl / abs(a)
            for k in range(n // 2 + 1):
                v = np.exp(2j * np.pi * k * x / n)
                lam = (A @ v)[0] / v[0]
                z = dt * lam
                R = (1 + (1 - th) * z) / (1 - th * z)
                s1, s2 = cls(mesh, disc), cls(mesh, disc)
                fr = space.field.fdata(model, mesh, [v.real.copy()])
                fi = space.field.fdata(model, mesh, [v.imag.copy()])
                with np.errstate(all="ignore"):
                    s1.step(fr, dt)
                    s2.step(fi, dt)
                got = fr.data[0] + 1j * fi.data[0]
                err = np.abs(got - R * v).max()
                if res is not None:
                    res.evals += 1
                    res.worst("fourier-amplification/tau", err / (LIN * (1 + cfl)))
                    res.census["Re z<=0" if z.real <= 1e-12 else "Re z>0"] += 1
                if not err <= LIN * (1 + cfl):
                    out.append(("C06/amplification/%s" % iname, "%s a=%g %s n=%d cfl %g mode %d: amplification %r, theta-scheme factor at z=%r is %r" % (
                        iname, a, rname, n, cfl, k, complex((got / v)[0]), complex(z), complex(R))))
                    continue
                # no growth for Re z <= 0 at any CFL
                if z.real <= 1e-12 and not np.abs(got).max() <= 1 + 4 * LIN * (1 + cfl):
                    out.append(("C06/no-growth/%s" % iname, "%s a=%g %s n=%d cfl %g mode %d (Re z = %g <= 0): amplitude grows to %r" % (iname, a, rname, n, cfl, k, z.real, np.abs(got).max())))
    return out


class ScalarDisc:
    """dq/dt = z q for a real z: the scalar test equation, through the public constructor"""

    def __init__(self, z):
        self.z = z

    def rhs(self, f):
        return [self.z * f.data[0]]


class _M:
    neq, shape, islinear = 1, [1], 0


class _Mesh:
    ncell = 1


def check_order(res=None):
    out = []
    for iname, cls in space.implicit_integrators().items():
        th = theta_of(cls)
        if th is None:
            continue
        if not space.is_multistep(cls):
            order = 1 if th == 1.0 else 2
            d = []
            for k in range(2, 6):
                z = -2.0 ** -k
                f = space.field.fdata(_M(), _Mesh(), [np.array([1.0])])
                with np.errstate(all="ignore"):
                    cls(_Mesh(), ScalarDisc(z)).step(f, 1.0)
                d.append(abs(float(f.data[0][0]) - np.exp(z)))
            slope = np.log2(d[-2] / d[-1])
            if res is not None:
                res.evals += 4
                res.worst("order-defect-slope-error/%s" % iname, abs(slope - (order + 1)))
            if not abs(slope - (order + 1)) <= 0.15:
                out.append(("C06/order/%s" % iname, "%s: defect |R(z)-exp(z)| at z=-1/16,-1/32 is %r, slope %.3f, expected %d (order %d)" % (iname, d[-2:], slope, order + 1, order)))
        else:
            errs = []
            for N in (16, 32, 64):
                f = space.field.fdata(_M(), _Mesh(), [np.array([1.0])])
                s = cls(_Mesh(), ScalarDisc(-1.0))
                with np.errstate(all="ignore"):
                    for _ in range(N):
                        s.step(f, 1.0 / N)
                errs.append(abs(float(f.data[0][0]) - np.exp(-1.0)))
                if not abs(f.time - 1.0) <= 64 * EPS:
                    out.append(("C06/order/%s/time" % iname, "%s: %d steps of 1/%d end at time %r" % (iname, N, N, f.time)))
            ratio = errs[1] / errs[2]
            if res is not None:
                res.evals += 3
                res.worst("order-error-ratio-distance-from-4/%s" % iname, abs(ratio - 4))
            if not abs(ratio - 4.0) <= 0.5:
                out.append(("C06/order/%s" % iname, "%s on dq/dt=-q over [0,1]: errors %r for 16/32/64 steps, ratio %.3f, a second-order method gives 4" % (iname, errs, ratio)))
    return out


# ---------------------------------------------------------------------------
def check_jacobian(mname, spec, flux, rname, bc, perm, res=None, scale=1.0):
    """scale: the conservative field (and Burgers' boundary values) multiplied by it - Burgers and Euler are homogeneous in the conservative
    variables (degree 2 and 1), so the relative accuracy the Jacobian must have is the same at every magnitude of the data"""
    kind = {"burgers": "burgers", "euler1d": "euler1d", "shallowwater": "shallowwater"}[spec[0]]
    mesh = space.mesh_spec(("w", (1.0, 0.5, 2.0, 1.0)))
    if bc == "per":
        bcs = ("per", "per")
    elif kind == "burgers":
        bcs = (("dirichlet", [0.9 * scale]), ("dirichlet", [1.6 * scale]))
    else:
        bcs = ("sym", "sym")
    model, disc = space.build_1d(spec, flux, rname, mesh, bcs[0], bcs[1])
    al = generic_alphabet(kind)
    if kind == "burgers":
        al = [np.array([v]) for v in (0.731, 1.294, 2.117, 1.583)]      # one sign: no sonic tie in the upwind flux
    else:
        al = al + [0.5 * (al[0] + al[1]) * 1.07]
    n = mesh.ncell
    f = space.field_from_letters(model, mesh, al, perm)
    if scale != 1.0:
        f.data = [np.asarray(d, float) * scale for d in f.data]
    neq = model.neq
    out = []
    site = "C06/jacobian/%s/%s/%s" % (mname, flux or "builtin", "unlimited" if space.recon_kappa(rname) is not None else rname.replace(":", "-"))
    if scale != 1.0:
        site += "/data-magnitude-%g" % scale
    cls = space.integ.implicit
    solver = cls(mesh, disc)
    with np.errstate(all="ignore"):
        J = solver.calc_jacobian(f)
    if J is None:
        J = getattr(solver, "jacobian", None)
    J = np.asarray(J, float)
    dim = n * neq

    def R(g):
        with np.errstate(all="ignore"):
            r = disc.rhs(g)
        v = np.zeros(dim)
        for q in range(neq):
            v[q::neq] = np.asarray(r[q], float)
        return v
    Jref = np.zeros((dim, dim))
    smooth = True
    for i in range(n):
        for q in range(neq):
            h = 1e-6 * (np.abs(f.data[q]).max())
            D = []
            for hh in (h, h / 2):
                gp, gm = f.copy(), f.copy()
                gp.data[q][i] += hh
                gm.data[q][i] -= hh
                D.append((R(gp) - R(gm)) / (2 * hh))
            Jref[:, i * neq + q] = (4 * D[1] - D[0]) / 3.0
            gp, g0 = f.copy(), f.copy()
            gp.data[q][i] += h
            one_sided = (R(gp) - R(g0)) / h
            # differentiability certificate: central differences at two radii and the one-sided difference agree
            if np.abs(D[1] - D[0]).max() > 1e-6 * (np.abs(D[0]).max() + 1e-300) or np.abs(one_sided - D[0]).max() > 1e-2 * (np.abs(Jref).max() + np.abs(D[0]).max() + 1e-300):
                smooth = False
    if not smooth:
        if res is not None:
            res.skipped += 1
        return out
    if J.shape != (dim, dim):
        return [(site + "/shape", "calc_jacobian returned shape %r for %d unknowns" % (J.shape, dim))]
    err = np.abs(J - Jref).max() / (np.abs(Jref).max() + 1e-300)
    if res is not None:
        res.evals += 1
        res.worst("jacobian/relative", err)
    if not err <= 1e-5:
        i, j = np.unravel_index(np.argmax(np.abs(J - Jref)), J.shape)
        out.append((site, "%s %s %s bc %s state letters %r: Jacobian entry (%d,%d) = %r, derivative of the space operator %r (relative error %.3g of the largest entry)" % (
            mname, flux, rname, bc, perm, i, j, J[i, j], Jref[i, j], err)))
    return out


def ref_jacobian(disc, f):
    """Richardson-extrapolated central-difference Jacobian of the real rhs (ordering: cell-major, equation fast) and a differentiability flag"""
    n, neq = f.nelem, f.neq
    dim = n * neq

    def R(g):
        with np.errstate(all="ignore"):
            r = disc.rhs(g)
        v = np.zeros(dim)
        for q in range(neq):
            v[q::neq] = np.asarray(r[q], float)
        return v
    J = np.zeros((dim, dim))
    smooth = True
    for i in range(n):
        for q in range(neq):
            h = 1e-6 * (np.abs(f.data[q]).max())
            D = []
            for hh in (h, h / 2):
                gp, gm = f.copy(), f.copy()
                gp.data[q][i] += hh
                gm.data[q][i] -= hh
                D.append((R(gp) - R(gm)) / (2 * hh))
            J[:, i * neq + q] = (4 * D[1] - D[0]) / 3.0
            if np.abs(D[1] - D[0]).max() > 1e-6 * (np.abs(D[0]).max() + 1e-300):
                smooth = False
    return J, smooth, R


def check_nonlinear_steps(mname, spec, flux, rname, bc, perm, res=None, modes=("scalar", "array")):
    """on a nonlinear problem every step of implicit / trapezoidal / gear solves the theta (BDF2) system linearised at the CURRENT state:
    two consecutive steps on one object, Jacobian = derivative of the real space operator there"""
    kind = spec[0]
    mesh = space.mesh_spec(("w", (1.0, 0.5, 2.0, 1.0)))
    if bc == "per":
        bcs = ("per", "per")
    elif kind == "burgers":
        bcs = (("dirichlet", [0.9]), ("dirichlet", [1.6]))
    else:
        bcs = ("sym", "sym")
    model, disc = space.build_1d(spec, flux, rname, mesh, bcs[0], bcs[1])
    al = generic_alphabet(kind)
    al = [np.array([v]) for v in (0.731, 1.294, 2.117, 1.583)] if kind == "burgers" else al + [0.5 * (al[0] + al[1]) * 1.07]
    n = mesh.ncell
    f0 = space.field_from_letters(model, mesh, al, perm)
    neq = model.neq
    dim = n * neq
    out = []

    def vec(g):
        v = np.zeros(dim)
        for q in range(neq):
            v[q::neq] = g.data[q]
        return v
    for iname, cls in space.implicit_integrators().items():
        th = theta_of(cls)
        if th is None:
            continue
        gear = space.is_multistep(cls)
        for cfl, mode in [(c, m_) for c in (0.8, 5.0) for m_ in modes]:
            with np.errstate(all="ignore"):
                dtc = cfl * np.asarray(disc.calc_timestep(f0, 1.0), float)
            # scalar: the global step; array: every cell its own step (what the dtlocal directive hands to step), cell i -> unknowns i*neq..i*neq+neq-1
            dt = float(np.min(dtc)) if mode == "scalar" else dtc.copy()
            Dinv = np.eye(dim) / dt if mode == "scalar" else np.diag(np.repeat(1.0 / dtc, neq))
            if mode == "array" and (not np.all(np.isfinite(dtc)) or np.all(dtc == dtc[0])):
                continue
            solver = cls(mesh, disc)
            f = f0.copy()
            prev = None
            for step in (1, 2):
                J, smooth, R = ref_jacobian(disc, f)
                if not smooth:
                    if res is not None:
                        res.skipped += 1
                    break
                q0 = vec(f)
                if gear and step == 2:
                    want = q0 + np.linalg.solve(1.5 * Dinv - J, R(f) + 0.5 * Dinv @ (q0 - prev))
                else:
                    want = q0 + np.linalg.solve(Dinv - th * J, R(f))
                with np.errstate(all="ignore"):
                    solver.step(f, dt)
                got = vec(f)
                if not (np.all(np.isfinite(got)) and np.all(np.isfinite(want))):
                    if res is not None:
                        res.skipped += 1
                    break
                err = np.abs(got - want).max() / (np.abs(want - q0).max() + 1e-3 * np.abs(q0).max())
                if res is not None:
                    res.evals += 1
                    res.worst("nonlinear-step-increment/relative", err)
                # forward-difference Jacobian (error ~1e-8 x curvature) amplified by dt: measured <= 1.2e-5 over the whole space; tolerance 1e-4 (1+CFL)
                if not err <= 1e-4 * (1 + cfl):
                    out.append(("C06/nonlinear/%s/%sstep%d" % (iname, "dt-array/" if mode == "array" else "", step), "%s %s %s %s bc %s letters %r cfl %g (%s dt): the increment of step %d differs by %.3g (relative) from the %s system "
                                "linearised at the current state" % (iname, mname, flux, rname, bc, perm, cfl, mode, step, err, "BDF2" if (gear and step == 2) else "theta=%g" % th)))
                    break
                prev = q0
    return out


MESHES = [("uni", 1, 1.0, 0.0), ("uni", 2, 2.0, 0.0), ("uni", 4, 1.0, -4.0), ("ref", 4, 1.0, 2.0, 1, 1), ("w", (0.5, 2.0)), ("w", (2.0, 0.5, 1.0)),
          ("w", (1.0, 0.5, 0.5, 2.0)), ("uni", 3, 3.0, 0.0), ("w", (0.5, 1.0, 2.0))]


def shard_linear(arg):
    a, rname, tier = arg
    res = core.Res()
    ms = MESHES + ([("uni", 6, 6.0, 0.0), ("w", (0.5, 2.0, 1.0, 1.0, 0.5, 2.0))] if tier == "thorough" else [])
    for mspec in ms:
        for bc in ("per", "dirichlet"):
            res.nontrivial += 1
            for s, w in check_linear(a, rname, mspec, bc, res):
                res.violation(s, w, {"kind": "lin", "a": a, "recon": rname, "mesh": mspec, "bc": bc})
    for mspec in (("uni", 4, 1.0, -4.0), ("uni", 3, 3.0, 0.0), ("w", (2.0, 0.5, 1.0))):
        for bc in ("per", "dirichlet"):
            res.nontrivial += 1
            for s, w in check_linear(a, rname, mspec, bc, res, src=True):
                res.violation(s.replace("C06/linear/", "C06/linear/with-linear-source/"), w, {"kind": "lin", "a": a, "recon": rname, "mesh": mspec, "bc": bc, "src": True})
    for mspec in (("uni", 4, 1.0, -4.0), ("w", (2.0, 0.5, 1.0))):
        res.nontrivial += 1
        for s, w in check_gear_solve(a, rname, mspec, res):
            res.violation(s, w, {"kind": "gearsolve", "a": a, "recon": rname, "mesh": mspec})
    for n in (4, 6, 8):
        for s, w in check_fourier(a, rname, n, res):
            res.violation(s, w, {"kind": "fourier", "a": a, "recon": rname, "n": n})
    res.sample({"a": a, "recon": rname, "mesh": ["w", [2.0, 0.5, 1.0]], "bc": "per", "cfl": 10.0, "field": "impulse1", "ops": ["step(dt)", "step(0.37 dt)"]}, cap=1)
    return res


def shard_linear_sizes(arg):
    """size ladder: the same judgement on larger systems (33, 64, 100 unknowns; thorough 160), three impulses and the generic vectors"""
    a, rname, mspec, bc = arg
    res = core.Res()
    res.nontrivial += 1
    for s, w in check_linear(a, rname, mspec, bc, res):
        res.violation(s.replace("C06/linear/", "C06/linear/larger-system/"), w, {"kind": "lin", "a": a, "recon": rname, "mesh": mspec, "bc": bc, "larger": True})
    return res


def shard_order(_):
    res = core.Res()
    res.nontrivial += 1
    for s, w in check_order(res):
        res.violation(s, w, {"kind": "order"})
    return res


def shard_jac(arg):
    mname, spec, flux, rname = arg
    res = core.Res()
    for bc in ("per", "wall"):
        for perm in itertools.permutations(range(4)):
            res.nontrivial += 1
            for s, w in check_jacobian(mname, spec, flux, rname, bc, perm, res):
                res.violation(s, w, {"kind": "jac", "model": mname, "spec": list(spec), "flux": flux, "recon": rname, "bc": bc, "perm": list(perm)})
        if mname in ("burgers", "euler1d"):
            for scale in (1e-8, 1e6):
                for perm in list(itertools.permutations(range(4)))[::4]:
                    res.nontrivial += 1
                    for s, w in check_jacobian(mname, spec, flux, rname, bc, perm, res, scale):
                        res.violation(s, w, {"kind": "jac", "model": mname, "spec": list(spec), "flux": flux, "recon": rname, "bc": bc, "perm": list(perm), "scale": scale})
        for perm in list(itertools.permutations(range(4)))[::5]:
            for s, w in check_nonlinear_steps(mname, spec, flux, rname, bc, perm, res):
                res.violation(s, w, {"kind": "nl", "model": mname, "spec": list(spec), "flux": flux, "recon": rname, "bc": bc, "perm": list(perm)})
    res.sample({"model": mname, "flux": flux, "recon": rname, "bc": "per", "state_letters": [0, 2, 1, 3]}, cap=1)
    return res


def run(ctx):
    cfg = [(a, r, ctx.tier) for a in (1.0, -1.5) for r in ["extrapol1"] + space.X1_UNLIMITED]
    ctx.pmap("linear-theta-bdf2", shard_linear, cfg)
    big = [("uni", 33, 1.0, 0.0), ("uni", 64, 2.0, -1.0), ("ref", 100, 1.0, 2.0, 1, 1)] + ([("ref", 160, 1.0, 3.0, 1, 3)] if ctx.thorough else [])
    ctx.pmap("linear-theta-bdf2-size-ladder", shard_linear_sizes, [(a, r, m, bc) for a in (1.0, -1.5) for r in ("extrapol1", "extrapol3") for m in big for bc in ("per", "dirichlet")])
    ctx.pmap("temporal-order", shard_order, [0])
    jc = []
    for mname, spec, fluxes in (("burgers", ("burgers",), (None,)), ("euler1d", ("euler1d", 1.4), ("hllc", "hlle")), ("shallowwater", ("shallowwater", 9.81), ("hll", "rusanov"))):
        for fl in fluxes:
            for r in space.X1_ALL:
                jc.append((mname, spec, fl, r))
    ctx.pmap("jacobian", shard_jac, jc)


def _tup(x):
    return tuple(_tup(y) for y in x) if isinstance(x, list) else x


def replay(case):
    k = case["kind"]
    if k == "lin":
        v = check_linear(case["a"], case["recon"], _tup(case["mesh"]), case["bc"], None, bool(case.get("src")))
        tag = "C06/linear/larger-system/" if case.get("larger") else "C06/linear/with-linear-source/" if case.get("src") else "C06/linear/"
        return [(s_.replace("C06/linear/", tag), w) for s_, w in v]
    if k == "gearsolve":
        return check_gear_solve(case["a"], case["recon"], _tup(case["mesh"]))
    if k == "fourier":
        return check_fourier(case["a"], case["recon"], case["n"])
    if k == "order":
        return check_order()
    if k == "nl":
        return check_nonlinear_steps(case["model"], tuple(case["spec"]), case["flux"], case["recon"], case["bc"], tuple(case["perm"]))
    return check_jacobian(case["model"], tuple(case["spec"]), case["flux"], case["recon"], case["bc"], tuple(case["perm"]), None, case.get("scale", 1.0))
