"""C02 - numerical fluxes are consistent, mirror-symmetric and upwind.

Pointwise exhaustive enumeration: every ordered pair of a product alphabet of
admissible states (equal states, sonic points, stagnation, ratios up to 1e12)
is pushed through the real model.numflux in one vectorised call per
(model, parameter, flux) and judged against closed-form references."""
import itertools

import numpy as np

from .. import core, space
from ..ref import physics as ph

ID = "C02"
LEVEL = "exploration"
RULE = ("all ordered pairs (W_L,W_R) of a product alphabet of states per (model, gamma|g|a, registered flux [, face direction]); "
        "oracles: F(W,W)=f(W), F(mirror W_R, mirror W_L)=parity*F(W_L,W_R), F=f(upwind) on the supercritical sub-lattice "
        "(regime decided by an independent Roe average); batch independence: the mixed batch bit-identical to homogeneous batches per branch signature and to single-pair calls. non-trivial = W_L != W_R (pairs are distinct by construction)")
ASSUMPTIONS = ["states between alphabet letters are not explored",
               "round-off tolerance 64 eps x (rho_max * s_max^k) with s_max the largest |u|+c of both states"]
EPS = np.finfo(float).eps
K = 64.0


# ---------------------------------------------------------------------------
# alphabets
def euler_states(gamma, tier):
    rs = [1.0, 1e-3, 1e3, 0.3, 1e-6, 1e6]
    ms = [0.0, 0.5, -0.5, 1.0, -1.0, 2.0, -2.0, 3.0, -3.0, 0.999, -0.999, 1.001, -1.001, 1e-8]
    if tier == "quick":
        rs = rs[:5]
    else:
        rs = rs + [3.0, 30.0]
        ms = ms + [-1e-8, 0.1, -0.1, 0.9, -0.9, 1.1, -1.1, 1.5, -1.5, 10.0, -10.0, 1.0 - 2 ** -52, 1.0 + 2 ** -52, -1.0 + 2 ** -53]
    out = []
    for r, m, p in itertools.product(rs, ms, rs):
        c = np.sqrt(gamma * p / r)
        out.append((r, m * c, p))
    return np.array(out).T


def euler2d_states(gamma, tier):
    rs = [1.0, 1e-3, 1e3] + ([0.3, 1e6] if tier == "thorough" else [])
    mn = [0.0, 0.5, -0.5, 1.0, -1.0, 2.0, -2.0, 0.999, -1.001] + ([3.0, -3.0, 1e-8, 1.001, -0.999] if tier == "thorough" else [])
    mt = [0.0, 1.0, -1.0] + ([3.0, -0.3] if tier == "thorough" else [])
    out = []
    for r, a, b, p in itertools.product(rs, mn, mt, rs):
        c = np.sqrt(gamma * p / r)
        out.append((r, a * c, b * c, p))
    return np.array(out).T     # rho, un, ut, p  (normal / tangential)


def sw_states(g, tier):
    hs = [1.0, 1e-3, 1e3, 0.3, 1e-6, 1e6]
    fr = [0.0, 0.5, -0.5, 1.0, -1.0, 2.0, -2.0, 3.0, -3.0, 0.999, -0.999, 1.001, -1.001, 1e-8]
    if tier == "thorough":
        hs = hs + [3.0, 30.0, 1e-2, 1e2]
        fr = fr + [-1e-8, 0.1, -0.1, 0.9, -0.9, 1.1, -1.1, 1.5, -1.5, 10.0, -10.0]
    out = []
    for h, f in itertools.product(hs, fr):
        out.append((h, f * np.sqrt(g * h)))
    return np.array(out).T


SCAL = np.array(sorted(set(space.S_THORO + [1e-8, -1e-8, 1e6, -1e6, 2.0, 1.5])))


def pairs(P):
    n = P.shape[1]
    i, j = np.meshgrid(np.arange(n), np.arange(n), indexing="ij")
    return P[:, i.ravel()], P[:, j.ravel()]


# ---------------------------------------------------------------------------
# per model: flux call, physical flux, mirror, parity, scales, regimes
class Euler1D:
    name = "euler1d"
    comps = ["mass", "momentum", "energy"]
    parity = [-1.0, 1.0, -1.0]

    def __init__(self, gamma):
        self.g = gamma
        self.model = space.euler.euler1d(gamma=gamma)

    def tag(self):
        return "gamma=%r" % self.g

    def fluxes(self):
        return space.fluxes(self.model)

    def F(self, flux, L, R):
        return [np.asarray(f, float) for f in self.model.numflux(flux, [L[0], L[1], L[2]], [R[0], R[1], R[2]])]

    def phys(self, W):
        return ph.euler_flux(W[0], W[1], W[2], self.g)

    def mirror(self, W):
        return np.array([W[0], -W[1], W[2]])

    def scales(self, L, R):
        g = self.g
        sL = np.abs(L[1]) + ph.euler_c(L[0], L[2], g)
        sR = np.abs(R[1]) + ph.euler_c(R[0], R[2], g)
        sm = np.maximum(sL, sR)
        rm = np.maximum(L[0], R[0])
        rH = np.maximum(L[0] * ph.euler_H(L[0], L[1] ** 2, L[2], g), R[0] * ph.euler_H(R[0], R[1] ** 2, R[2], g))
        return [rm * sm, rm * sm * sm, sm * rH]

    upwind = ("hlle", "hllc")

    def regime(self, L, R):
        g = self.g
        cL, cR = ph.euler_c(L[0], L[2], g), ph.euler_c(R[0], R[2], g)
        u, c = ph.roe_average(L[0], L[1], L[2], R[0], R[1], R[2], g)
        pos = (L[1] - cL > 0) & (R[1] - cR > 0) & (u - c > 0)
        neg = (L[1] + cL < 0) & (R[1] + cR < 0) & (u + c < 0)
        return pos, neg

    def margins(self, L, R):
        """(u_L - c_L, u_R - c_R, u_roe - c_roe, c_roe): each of the first three shifts by exactly U under a common drift U"""
        g = self.g
        cL, cR = ph.euler_c(L[0], L[2], g), ph.euler_c(R[0], R[2], g)
        u, c = ph.roe_average(L[0], L[1], L[2], R[0], R[1], R[2], g)
        return L[1] - cL, R[1] - cR, u - c, c

    def branch(self, L, R):
        """HLL-type branch signature from the reference wave speeds"""
        g = self.g
        cL, cR = ph.euler_c(L[0], L[2], g), ph.euler_c(R[0], R[2], g)
        u, c = ph.roe_average(L[0], L[1], L[2], R[0], R[1], R[2], g)
        sl = np.minimum(u - c, L[1] - cL)
        sr = np.maximum(u + c, R[1] + cR)
        return np.where(sl >= 0, "sL>=0", np.where(sr <= 0, "sR<=0", "sL<0<sR"))


class Euler2D(Euler1D):
    name = "euler2d"
    comps = ["mass", "momentum_n", "momentum_t", "energy"]
    parity = [-1.0, 1.0, -1.0, -1.0]
    upwind = ("hlle",)

    def __init__(self, gamma, axis):
        self.g = gamma
        self.axis = axis     # 0: x-face (normal = ex), 1: y-face
        self.model = space.euler.euler2d(gamma=gamma)

    def tag(self):
        return "gamma=%r/face=%s" % (self.g, "xy"[self.axis])

    def _vec(self, W):
        un, ut = W[1], W[2]
        return np.vstack([un, ut]) if self.axis == 0 else np.vstack([ut, un])

    def F(self, flux, L, R):
        n = L.shape[1]
        d = np.zeros((2, n))
        d[self.axis] = 1.0
        f = self.model.numflux(flux, [L[0], self._vec(L), L[3]], [R[0], self._vec(R), R[3]], d)
        mom = np.asarray(f[1], float)
        return [np.asarray(f[0], float), mom[self.axis], mom[1 - self.axis], np.asarray(f[2], float)]

    def phys(self, W):
        return ph.euler_flux_2d(W[0], W[1], W[2], W[3], self.g, 1.0, 0.0)   # in (normal, tangential) frame

    def mirror(self, W):
        return np.array([W[0], -W[1], W[2], W[3]])

    def scales(self, L, R):
        g = self.g
        sL = np.abs(L[1]) + ph.euler_c(L[0], L[3], g)
        sR = np.abs(R[1]) + ph.euler_c(R[0], R[3], g)
        sm = np.maximum(sL, sR)
        vm = np.maximum(sm, np.maximum(np.abs(L[2]), np.abs(R[2])))
        rm = np.maximum(L[0], R[0])
        rH = np.maximum(L[0] * ph.euler_H(L[0], L[1] ** 2 + L[2] ** 2, L[3], g),
                        R[0] * ph.euler_H(R[0], R[1] ** 2 + R[2] ** 2, R[3], g))
        return [rm * sm, rm * sm * vm, rm * sm * vm, sm * rH]

    def regime(self, L, R):
        g = self.g
        cL, cR = ph.euler_c(L[0], L[3], g), ph.euler_c(R[0], R[3], g)
        wl, wr = np.sqrt(L[0]), np.sqrt(R[0])
        HL = ph.euler_H(L[0], L[1] ** 2 + L[2] ** 2, L[3], g)
        HR = ph.euler_H(R[0], R[1] ** 2 + R[2] ** 2, R[3], g)
        un = (wl * L[1] + wr * R[1]) / (wl + wr)
        ut = (wl * L[2] + wr * R[2]) / (wl + wr)
        H = (wl * HL + wr * HR) / (wl + wr)
        c = np.sqrt((g - 1.0) * (H - 0.5 * (un * un + ut * ut)))
        pos = (L[1] - cL > 0) & (R[1] - cR > 0) & (un - c > 0)
        neg = (L[1] + cL < 0) & (R[1] + cR < 0) & (un + c < 0)
        self._roe = (un, c, cL, cR)
        return pos, neg

    def margins(self, L, R):
        self.regime(L, R)
        un, c, cL, cR = self._roe
        return L[1] - cL, R[1] - cR, un - c, c

    def branch(self, L, R):
        self.regime(L, R)
        un, c, cL, cR = self._roe
        sl = np.minimum(un - c, L[1] - cL)
        sr = np.maximum(un + c, R[1] + cR)
        return np.where(sl >= 0, "sL>=0", np.where(sr <= 0, "sR<=0", "sL<0<sR"))


class SW:
    name = "shallowwater"
    comps = ["depth", "momentum"]
    parity = [-1.0, 1.0]
    upwind = ("hll",)

    def __init__(self, g):
        self.g = g
        self.model = space.shallow.shallowwater1d(g=g)

    def tag(self):
        return "g=%r" % self.g

    def fluxes(self):
        return space.fluxes(self.model)

    def F(self, flux, L, R):
        return [np.asarray(f, float) for f in self.model.numflux(flux, [L[0], L[1]], [R[0], R[1]])]

    def phys(self, W):
        return ph.sw_flux(W[0], W[1], self.g)

    def mirror(self, W):
        return np.array([W[0], -W[1]])

    def scales(self, L, R):
        sm = np.maximum(np.abs(L[1]) + ph.sw_c(L[0], self.g), np.abs(R[1]) + ph.sw_c(R[0], self.g))
        hm = np.maximum(L[0], R[0])
        return [hm * sm, hm * sm * sm]

    def regime(self, L, R):
        cL, cR = ph.sw_c(L[0], self.g), ph.sw_c(R[0], self.g)
        u, c = ph.sw_roe(L[0], L[1], R[0], R[1], self.g)
        pos = (L[1] - cL > 0) & (R[1] - cR > 0) & (u - c > 0)
        neg = (L[1] + cL < 0) & (R[1] + cR < 0) & (u + c < 0)
        return pos, neg

    def margins(self, L, R):
        cL, cR = ph.sw_c(L[0], self.g), ph.sw_c(R[0], self.g)
        u, c = ph.sw_roe(L[0], L[1], R[0], R[1], self.g)
        return L[1] - cL, R[1] - cR, u - c, c

    def branch(self, L, R):
        cL, cR = ph.sw_c(L[0], self.g), ph.sw_c(R[0], self.g)
        sl = np.minimum(L[1] - cL, R[1] - cR)
        sr = np.maximum(L[1] + cL, R[1] + cR)
        return np.where(sl >= 0, "sL>=0", np.where(sr <= 0, "sR<=0", "sL<0<sR"))


class Conv:
    name = "convection"
    comps = ["scalar"]
    parity = [-1.0]
    upwind = (None,)

    def __init__(self, a):
        self.a = a
        self.model = space.convection.model(a)
        self.mmodel = space.convection.model(-a)

    def tag(self):
        return "a=%r" % self.a

    def fluxes(self):
        return [None]

    def F(self, flux, L, R, mirrored=False):
        m = self.mmodel if mirrored else self.model
        return [np.asarray(m.numflux(flux, [L[0]], [R[0]])[0], float)]

    def phys(self, W):
        return [self.a * W[0]]

    def mirror(self, W):
        return W.copy()

    def scales(self, L, R):
        return [abs(self.a) * np.maximum(np.abs(L[0]), np.abs(R[0]))]

    def regime(self, L, R):
        n = L.shape[1]
        return np.full(n, self.a > 0), np.full(n, self.a < 0)

    def branch(self, L, R):
        return np.full(L.shape[1], "a>0" if self.a > 0 else "a<0")


class Burg:
    name = "burgers"
    comps = ["velocity"]
    parity = [1.0]
    upwind = (None,)

    def __init__(self, _=None):
        self.model = space.burgers.model()

    def tag(self):
        return "-"

    def fluxes(self):
        return [None]

    def F(self, flux, L, R):
        return [np.asarray(self.model.numflux(flux, [L[0]], [R[0]])[0], float)]

    def phys(self, W):
        return [0.5 * W[0] ** 2]

    def mirror(self, W):
        return -W

    def scales(self, L, R):
        return [np.maximum(L[0] ** 2, R[0] ** 2)]

    def regime(self, L, R):
        return (L[0] > 0) & (R[0] > 0), (L[0] < 0) & (R[0] < 0)

    def branch(self, L, R):
        s = L[0] + R[0]
        return np.where(s > 0, "avg>0", np.where(s < 0, "avg<0", "avg=0"))


def build(kind, param):
    if kind == "euler1d":
        return Euler1D(param)
    if kind == "euler2d":
        return Euler2D(param[0], param[1])
    if kind == "shallowwater":
        return SW(param)
    if kind == "convection":
        return Conv(param)
    return Burg()


def states_of(kind, param, tier):
    if kind == "euler1d":
        return euler_states(param, tier)
    if kind == "euler2d":
        return euler2d_states(param[0], tier)
    if kind == "shallowwater":
        return sw_states(param, tier)
    return SCAL[None, :].copy()


# ---------------------------------------------------------------------------
def evaluate(kind, param, flux, L, R, res=None):
    """all oracles on the pair arrays L, R; returns list of (site, what, index)"""
    M = build(kind, param)
    out = []
    base = "C02/%s/%s" % (M.name, flux if flux is not None else "builtin")
    n = L.shape[1]
    L0, R0 = L.copy(), R.copy()
    with np.errstate(all="ignore"):
        F = M.F(flux, L, R)
        mL, mR = M.mirror(R), M.mirror(L)
        Fm = M.F(flux, mL, mR, True) if kind == "convection" else M.F(flux, mL, mR)
        S = M.scales(L, R)
        fL, fR = M.phys(L), M.phys(R)
        pos, neg = M.regime(L, R)
        br = M.branch(L, R)
    if not (np.array_equal(L, L0, equal_nan=True) and np.array_equal(R, R0, equal_nan=True)):
        out.append((base + "/modifies-its-input", "%s %s: numflux changed the face states it was given" % (M.name, M.tag()), 0))
        L, R = L0, R0
    same = np.all(L == R, axis=0)
    isup = flux in M.upwind
    for k, comp in enumerate(M.comps):
        tol = K * EPS * S[k]
        bad_shape = F[k].shape != (n,)
        if bad_shape:
            out.append((base + "/shape/" + comp, "flux component has shape %r for %d faces" % (F[k].shape, n), 0))
            continue
        nf = ~np.isfinite(F[k])
        e_cons = np.where(same, np.abs(F[k] - fL[k]), 0.0)
        e_mir = np.abs(Fm[k] - M.parity[k] * F[k])
        e_up = np.zeros(n)
        if isup:
            e_up = np.where(pos, np.abs(F[k] - fL[k]), np.where(neg, np.abs(F[k] - fR[k]), 0.0))
        for rule, err, mask in (("consistency", e_cons, same), ("mirror", e_mir, np.ones(n, bool)),
                                ("upwind", e_up, (pos | neg) & isup)):
            with np.errstate(all="ignore"):
                bad = mask & ~(err <= tol)
            if res is not None and mask.any():
                sc = np.where(S[k] > 0, S[k], 1.0)
                res.worst("%s/%s" % (rule, M.name), np.nanmax(np.where(mask & np.isfinite(err), err / (EPS * sc), 0.0)))
            for i in np.flatnonzero(bad)[:50]:
                out.append(("%s/%s/%s/%s" % (base, rule, comp, br[i]),
                            "%s %s %s: F=%r mirror-run=%r f(L)=%r f(R)=%r tol=%.3g L=%r R=%r"
                            % (M.name, M.tag(), rule, F[k][i], Fm[k][i], fL[k][i], fR[k][i], tol[i], L[:, i].tolist(), R[:, i].tolist()), int(i)))
        for i in np.flatnonzero(nf)[:50]:
            out.append(("%s/finite/%s/%s" % (base, comp, br[i]), "non-finite flux %r for admissible L=%r R=%r"
                        % (F[k][i], L[:, i].tolist(), R[:, i].tolist()), int(i)))
    if res is not None:
        res.evals += n
        res.nontrivial += int(np.sum(~same))
        u, c = np.unique(br, return_counts=True)
        for a, b in zip(u, c):
            res.census["%s/branch/%s" % (M.name, a)] += int(b)
        res.census["%s/equal-states" % M.name] += int(same.sum())
        if isup:
            res.census["%s/upwind-regime+" % M.name] += int(pos.sum())
            res.census["%s/upwind-regime-" % M.name] += int(neg.sum())
    return out


def batch_independence(kind, param, flux, L, R, res=None):
    """a numerical flux is an elementwise function of its face states: the value for a pair must not depend on which other pairs share the
    call.  The mixed batch (judged above) is compared bit for bit with (i) homogeneous batches, one per reference branch signature, and
    (ii) one call per pair on a sub-lattice."""
    M = build(kind, param)
    out = []
    base = "C02/%s/%s" % (M.name, flux if flux is not None else "builtin")
    with np.errstate(all="ignore"):
        F = M.F(flux, L, R)
        br = M.branch(L, R)
    n = L.shape[1]
    for sig in np.unique(br):
        idx = np.flatnonzero(br == sig)
        with np.errstate(all="ignore"):
            G = M.F(flux, L[:, idx], R[:, idx])
        if res is not None:
            res.evals += idx.size
        for k, comp in enumerate(M.comps):
            bad = ~((G[k] == F[k][idx]) | (np.isnan(G[k]) & np.isnan(F[k][idx])))
            for j in np.flatnonzero(bad)[:5]:
                i = idx[j]
                out.append(("%s/batch-dependent/homogeneous-batch/%s/%s" % (base, comp, sig), "%s %s: pair L=%r R=%r gives %r in a batch of %d pairs that all have signature %s, %r in the mixed batch"
                            % (M.name, M.tag(), L[:, i].tolist(), R[:, i].tolist(), G[k][j], idx.size, sig, F[k][i]), int(i), "group"))
    step = max(1, n // 1500)
    for i in range(0, n, step):
        with np.errstate(all="ignore"):
            G = M.F(flux, L[:, i:i + 1], R[:, i:i + 1])
        if res is not None:
            res.evals += 1
        for k, comp in enumerate(M.comps):
            g = np.asarray(G[k]).ravel()[0]
            if not (g == F[k][i] or (g != g and F[k][i] != F[k][i])):
                out.append(("%s/batch-dependent/single-pair/%s/%s" % (base, comp, br[i]), "%s %s: pair L=%r R=%r gives %r when passed alone, %r in the mixed batch"
                            % (M.name, M.tag(), L[:, i].tolist(), R[:, i].tolist(), g, F[k][i]), int(i), "single"))
    return out


DELTAS = [1e-3, 0.03, 0.1, 0.3, 1.0]


def regime_boundary_pairs(kind, param, tier):
    """pairs on the inner edge of the upwind regime of the property ("both states and their Roe average supercritical in the same
    direction"): relative data (ratios of density/pressure/depth, velocity jumps of either sign up to several sound speeds, tangential
    jumps in 2D) drifted by the common velocity U that makes the *binding* one of the three conditions hold by delta x c_roe, for every
    delta of DELTAS, in the + direction; the - direction is their mirror image."""
    M = build(kind, param)
    th = tier == "thorough"
    ratios = [1.0, 1e-2, 1e2, 1e-3, 1e3] + ([1e-6, 1e6, 3.0] if th else [])
    jumps = [0.0, 0.5, -0.5, 2.0, -2.0, 5.0, -5.0] + ([1.0, -1.0, 10.0, -10.0] if th else [])
    rows = []
    if kind == "shallowwater":
        for hr, j in itertools.product(ratios, jumps):
            cm = np.sqrt(param * max(1.0, hr))
            rows.append(((1.0, 0.0), (hr, j * cm)))
    else:
        g = param if kind == "euler1d" else param[0]
        tang = [(0.0, 0.0)] if kind == "euler1d" else [(0.0, 0.0), (1.0, -1.0), (3.0, 0.0), (0.0, -2.0)]
        for rr, pr, j, (tl, tr) in itertools.product(ratios, ratios[:5], jumps, tang):
            cm = max(np.sqrt(g * 1.0 / 1.0), np.sqrt(g * pr / rr))
            if kind == "euler1d":
                rows.append(((1.0, 0.0, 1.0), (rr, j * cm, pr)))
            else:
                rows.append(((1.0, 0.0, tl * cm, 1.0), (rr, j * cm, tr * cm, pr)))
    L = np.array([r[0] for r in rows], float).T
    R = np.array([r[1] for r in rows], float).T
    mL, mR, mroe, c = M.margins(L, R)
    a = np.minimum(np.minimum(mL, mR), mroe)
    Ls, Rs = [], []
    for d in DELTAS:
        U = d * c - a
        l, r = L.copy(), R.copy()
        l[1] += U
        r[1] += U
        Ls += [l, M.mirror(r)]
        Rs += [r, M.mirror(l)]
    return np.hstack(Ls), np.hstack(Rs)


def int_states(kind):
    """integer-valued admissible states (every letter exactly representable in int32)"""
    if kind == "euler1d":
        return np.array([(r, u, p_) for r in (1, 2, 5) for u in (-3, -1, 0, 1, 2, 7) for p_ in (1, 3, 4)], float).T
    if kind == "euler2d":
        return np.array([(r, u, v, p_) for r in (1, 3) for u in (-3, -1, 0, 2, 5) for v in (-2, 0, 1) for p_ in (1, 4)], float).T
    if kind == "shallowwater":
        return np.array([(h, u) for h in (1, 2, 5, 40) for u in (-9, -3, -1, 0, 1, 2, 7)], float).T
    return np.array([[-7, -5, -3, -2, -1, 0, 1, 2, 3, 5, 6, 9]], float)


def dtype_independence(kind, param, flux, res=None):
    """the same integer-valued face states handed over as float64, int64 and int32 arrays: identical fluxes, bit for bit"""
    M = build(kind, param)
    out = []
    base = "C02/%s/%s" % (M.name, flux if flux is not None else "builtin")
    L, R = pairs(int_states(kind))
    with np.errstate(all="ignore"):
        F = M.F(flux, L.copy(), R.copy())
    # the same float64 pairs as strided views (reversed; every second element of a longer array): elementwise functions do not see the layout
    n = L.shape[1]
    big_l, big_r = np.repeat(L, 2, axis=1), np.repeat(R, 2, axis=1)
    for lname, vl, vr, back in (("reversed-view", L[:, ::-1], R[:, ::-1], lambda a: a[::-1]), ("every-second-element-view", big_l[:, ::2], big_r[:, ::2], lambda a: a)):
        with np.errstate(all="ignore"):
            G = M.F(flux, vl, vr)
        if res is not None:
            res.evals += n
        for k, comp in enumerate(M.comps):
            g = back(np.asarray(G[k]))
            if g.shape != F[k].shape or not np.array_equal(g, F[k], equal_nan=True):
                out.append(("%s/memory-layout/%s" % (base, comp), "%s %s: pairs handed over as a %s give other fluxes than the same pairs as contiguous arrays" % (M.name, M.tag(), lname), 0, lname))
    for dt in (np.int64, np.int32):
        with np.errstate(all="ignore"):
            G = M.F(flux, L.astype(dt), R.astype(dt))
        if res is not None:
            res.evals += L.shape[1]
            res.nontrivial += L.shape[1]
            res.census["%s/integer-typed-pairs" % M.name] += L.shape[1]
        for k, comp in enumerate(M.comps):
            if np.shape(G[k]) != np.shape(F[k]):
                out.append(("%s/input-dtype/%s" % (base, comp), "%s %s: %s face states give a flux of shape %r, float64 states %r" % (M.name, M.tag(), dt.__name__, np.shape(G[k]), np.shape(F[k])), 0, dt.__name__))
                continue
            bad = ~((G[k] == F[k]) | (np.isnan(G[k]) & np.isnan(F[k])))
            for i in np.flatnonzero(bad)[:3]:
                out.append(("%s/input-dtype/%s" % (base, comp), "%s %s: L=%r R=%r as %s arrays give %r, as float64 arrays %r" % (
                    M.name, M.tag(), L[:, i].tolist(), R[:, i].tolist(), dt.__name__, G[k][i], F[k][i]), int(i), dt.__name__))
    return out


def configs(tier):
    th = tier == "thorough"
    cfg = []
    for g in ([1.4, 5.0 / 3.0, 1.1, 2.0] if th else [1.4, 5.0 / 3.0]):
        for fl in space.fluxes(space.euler.euler1d()):
            cfg.append(("euler1d", g, fl))
    for g in ([1.4, 1.1, 2.0] if th else [1.4]):
        for ax in (0, 1):
            for fl in space.fluxes(space.euler.euler2d()):
                cfg.append(("euler2d", (g, ax), fl))
    for g in ([9.81, 1.0, 10.0] if th else [9.81, 1.0]):
        for fl in space.fluxes(space.shallow.shallowwater1d()):
            cfg.append(("shallowwater", g, fl))
    for a in [1.5, -1.5, 1e-3, -1e-3, 1e3, -1e3]:
        cfg.append(("convection", a, None))
    cfg.append(("burgers", None, None))
    return cfg


def check_inherited(g, ax, name):
    """a flux name offered by an euler2d instance but implemented by the 1D base class: judged on a handful of states"""
    M = Euler2D(g, ax)
    W = np.array([[1.0, 2.0, 0.5], [0.3, -0.2, 1.4], [0.1, 0.4, -0.6], [1.0, 1.5, 0.7]])
    site = "C02/euler2d/%s/registered-for-2d-but-1d-implementation" % name
    try:
        with np.errstate(all="ignore"):
            F = M.F(name, W, W.copy())
        f = M.phys(W)
        ok = all(np.shape(F[k]) == (3,) and np.all(np.abs(F[k] - f[k]) <= 1e-12 * (1 + np.abs(f[k]))) for k in range(4))
        if ok:
            return []
        return [(site, "euler2d(gamma=%r).numflux(%r, W, W, face %s) is not the physical flux of W (shapes %r): the name resolves to a formula of the 1D base class" % (
            g, name, "xy"[ax], [np.shape(x) for x in F]))]
    except Exception as e:
        return [(site, "euler2d(gamma=%r).numflux(%r, W, W, face %s) raises %r: the name resolves to a formula of the 1D base class" % (g, name, "xy"[ax], e))]


def check_mixed_directions(g, flux, res=None):
    """one call for faces of both directions in any order (y-faces first, interleaved, blocks): each face gets the flux it gets in a call of its own
    direction (the value for a face does not depend on the other faces of the call, nor on their normals)"""
    Mx, My = Euler2D(g, 0), Euler2D(g, 1)
    L, R = pairs(euler2d_states(g, "quick")[:, ::7])
    n = L.shape[1]
    with np.errstate(all="ignore"):
        Fx, Fy = Mx.F(flux, L, R), My.F(flux, L, R)
    out = []
    i = np.arange(n)
    for oname, axes in (("y-faces-first", (i < n // 2).astype(int)), ("interleaved", i % 2), ("blocks-of-three", (i // 3) % 2)):
        d = np.zeros((2, n))
        d[axes, i] = 1.0
        VL = np.where(axes == 0, np.vstack([L[1], L[2]]), np.vstack([L[2], L[1]]))
        VR = np.where(axes == 0, np.vstack([R[1], R[2]]), np.vstack([R[2], R[1]]))
        with np.errstate(all="ignore"):
            f = Mx.model.numflux(flux, [L[0], VL, L[3]], [R[0], VR, R[3]], d)
        mom = np.asarray(f[1], float)
        got = [np.asarray(f[0], float), np.where(axes == 0, mom[0], mom[1]), np.where(axes == 0, mom[1], mom[0]), np.asarray(f[2], float)]
        if res is not None:
            res.evals += n
            res.nontrivial += n
        for k, comp in enumerate(Mx.comps):
            want = np.where(axes == 0, Fx[k], Fy[k])
            bad = ~((got[k] == want) | (np.isnan(got[k]) & np.isnan(want)))
            if bad.any():
                j = int(np.flatnonzero(bad)[0])
                out.append(("C02/euler2d/%s/mixed-face-directions/%s" % (flux, comp), "euler2d gamma=%r %s: in a call with both face directions (%s) face %d (%s-face, L=%r R=%r) gets %r, alone among faces of its direction %r" % (
                    g, flux, oname, j, "xy"[axes[j]], L[:, j].tolist(), R[:, j].tolist(), got[k][j], want[j])))
                break
    return out


def shard_mixed(arg):
    g, flux = arg
    res = core.Res()
    for s_, w in check_mixed_directions(g, flux, res):
        res.violation(s_, w, {"kind": "euler2d", "param": [g, 0], "flux": flux, "mixed": True})
    return res


def shard_inherited(arg):
    g, ax, name = arg
    res = core.Res()
    res.evals += 3
    res.nontrivial += 3
    for s_, w in check_inherited(g, ax, name):
        res.violation(s_, w, {"kind": "euler2d", "param": [g, ax], "flux": name, "inherited": True})
    return res


def shard(arg):
    kind, param, flux, tier = arg
    res = core.Res()
    P = states_of(kind, param, tier)
    L, R = pairs(P)
    # chunk to bound memory
    step = 200000
    for s in range(0, L.shape[1], step):
        l, r = L[:, s:s + step], R[:, s:s + step]
        for site, what, i in evaluate(kind, param, flux, l, r, res):
            res.violation(site, what, {"kind": kind, "param": param, "flux": flux, "L": l[:, i].tolist(), "R": r[:, i].tolist()})
    if kind in ("euler1d", "euler2d", "shallowwater"):
        lb, rb = regime_boundary_pairs(kind, param, tier)
        n0 = res.evals
        for site, what, i in evaluate(kind, param, flux, lb, rb, res):
            res.violation(site.replace("/upwind/", "/upwind/regime-boundary/"), what, {"kind": kind, "param": param, "flux": flux, "L": lb[:, i].tolist(), "R": rb[:, i].tolist(), "edge": True})
        res.census["%s/regime-boundary-pairs" % kind] += res.evals - n0
    for site, what, i, dtn in dtype_independence(kind, param, flux, res):
        res.violation(site, what, {"kind": kind, "param": param, "flux": flux, "dtype": dtn})
    # batch composition: on the quick alphabet of this configuration (one mixed batch small enough to hold)
    Pq = states_of(kind, param, "quick")
    Lq, Rq = pairs(Pq)
    for site, what, i, mode in batch_independence(kind, param, flux, Lq, Rq, res):
        res.violation(site, what, {"kind": kind, "param": param, "flux": flux, "batch": mode, "index": i})
    k = L.shape[1] // 3
    res.sample({"model": kind, "param": param, "flux": flux, "L": L[:, k].tolist(), "R": R[:, k].tolist()}, cap=1)
    return res


def run(ctx):
    ctx.pmap("flux-pairs", shard, [c + (ctx.tier,) for c in configs(ctx.tier)])
    ctx.pmap("euler2d-mixed-face-directions", shard_mixed, [(g, fl) for g in (1.4, 5.0 / 3.0) for fl in space.fluxes(space.euler.euler2d())])
    # names an euler2d instance offers without a 2D implementation (its registry starts as a copy of the 1D base class's)
    ctx.pmap("euler2d-names-with-1d-implementation", shard_inherited, [(1.4, ax, nm) for nm in space.inherited_1d_fluxes(space.euler.euler2d()) for ax in (0, 1)], procs=1)


def replay(case):
    param = case["param"]
    if isinstance(param, list):
        param = tuple(param)
    if case.get("inherited"):
        return check_inherited(param[0], param[1], case["flux"])
    if case.get("mixed"):
        return check_mixed_directions(param[0], case["flux"])
    if "dtype" in case:
        return [(s_, w) for s_, w, i, dtn in dtype_independence(case["kind"], param, case["flux"]) if dtn == case["dtype"]]
    if "batch" in case:
        Lq, Rq = pairs(states_of(case["kind"], param, "quick"))
        return [(s_, w) for s_, w, i, mode in batch_independence(case["kind"], param, case["flux"], Lq, Rq) if i == case["index"] and mode == case["batch"]]
    L = np.array(case["L"], float)[:, None]
    R = np.array(case["R"], float)[:, None]
    return [(s.replace("/upwind/", "/upwind/regime-boundary/") if case.get("edge") else s, w) for s, w, _ in evaluate(case["kind"], param, case["flux"], L, R)]
