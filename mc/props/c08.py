"""C08 - solve is pure: repeatable, unaffected by saving, monitoring or restart.

Shape A, differential oracle: explicit-state exploration of histories of real
solve/restart calls on ONE solver object (sharing is the subject).  A history is
a prefix of 'disturbing' operations followed by a probe operation; the probe's
observations (returned fields, counters, solver.Qn, monitor lists) are compared
bit for bit with those of the same probe on a fresh object, with those of sibling
probes that only differ by save times or monitors, and N+M restarts with one
solve of N+M.  No expected value is written by hand.
"""
import itertools

import numpy as np

from .. import core, space

ID = "C08"
LEVEL = "model_checking"
RULE = ("histories = (prefix of <=2 disturbing solve/restart operations drawn from a 12-letter alphabet: other field, other save list, other stop, other CFL, dtlocal directive, other solver objects on the same discretisation, "
        "monitors, first-step snapshot) x (probe operation: solve(f1) x 5 save lists x 3 monitor settings; restart pairs N+M for N in 1..3, M in 1..2) "
        "x every integrator class x 3 systems x {monitors given to solve, monitors given to the constructor}; "
        "non-trivial = history with a non-empty prefix or a probe with snapshots/monitors")
ASSUMPTIONS = ["observations are public API (returned fields, nit/totnit, monitor outputs) plus the documented attribute solver.Qn when present",
               "a monitor dictionary reused across calls accumulates the records of each call; each call must add exactly the multiples of the "
               "frequency in [start count, start count+N], start included",
               "restart equivalence is asserted on the same solver object (multistep and cached-Jacobian memory are kept by restart by design)"]
EPS = np.finfo(float).eps
CFL = 0.4
HORIZON = 3.0

_SYS = {}


def system(name, fresh=False):
    """fresh=True builds new model/mesh/discretisation objects: a history must not share hidden state of the discretisation
    (e.g. a cached time step) with the reference run it is compared with"""
    if name in _SYS and not fresh:
        return _SYS[name]
    if name == "conv6-muscl":
        model = space.convection.model(1.0)
        m = space.mesh1.unimesh(ncell=6, length=6.0)
        disc = space.modeldisc.fvm(model, m, space.xnum.muscl(space.xnum.vanleer))
        fa = [np.array([0, 1, 2, 3, 1, -1.0])]
        fb = [np.array([1, 1, 0, 2, 0, -1.0])]
        var = "q"
    elif name == "burgers4":
        model = space.burgers.model()
        m = space.mesh1.unimesh(ncell=4, length=4.0)
        disc = space.modeldisc.fvm(model, m, space.xnum.muscl(space.xnum.minmod))
        fa = [np.array([1.0, 2.0, 0.5, 1.5])]
        fb = [np.array([2.0, 1.0, 1.5, 0.75])]
        var = None
    elif name == "euler4":
        model = space.euler.euler1d()
        m = space.mesh1.refinedmesh(ncell=4, length=1.0, ratio=2.0)
        disc = space.modeldisc.fvm(model, m, space.xnum.muscl(space.xnum.minmod), numflux="hllc")
        fa = model.prim2cons([np.array([1.0, 1.2, 1.0, 0.8]), np.array([0.1, 0.2, 0.0, -0.1]), np.array([1.0, 1.1, 0.9, 1.0])])
        fb = model.prim2cons([np.array([1.0, 1.0, 1.0, 0.9]), np.array([0.0, 0.2, 0.1, -0.1]), np.array([1.0, 1.0, 0.9, 1.2])])
        var = "mach"
    else:
        raise KeyError(name)
    if fresh:
        return (model, m, disc, {"a": fa, "b": fb}, var)
    _SYS[name] = (model, m, disc, {"a": fa, "b": fb}, var)
    return _SYS[name]


def reftraj(cls, sysname, fkey, kmax=8):
    model, m, disc, fs, var = system(sysname, fresh=True)
    s = cls(m, disc)
    Q, dts = [space.field.fdata(model, m, [d.copy() for d in fs[fkey]])], []
    for _ in range(kmax):
        f = Q[-1].copy()
        with np.errstate(all="ignore"):
            dt = float(min(disc.calc_timestep(f, CFL)))
            s.step(f, dt)
        Q.append(f)
        dts.append(dt)
    return Q, dts


def mon_spec(kind, var):
    """fresh monitor dictionaries"""
    if kind == "none":
        return {}
    if kind == "f1":
        return {"residual": {"frequency": 1}}
    d = {"r": {"type": "residual", "frequency": 2}}
    if var is not None:
        d["a"] = {"type": "data_average", "data": var, "frequency": 3}
    return d


def save_times(traj, name):
    Q, dts = traj
    t = lambda k, x: Q[k].time + x * dts[k]
    return {"none": [], "early": [t(0, 0.3)], "early2": [t(0, 0.3), t(0, 0.7)], "mid": [t(1, 0.5)], "late": [t(2, 0.3)],
            "early+late": [t(0, 0.3), t(2, 0.3)], "all": [t(0, 0.3), t(1, 0.5), t(2, 0.3)], "start+late": [Q[0].time, t(2, 0.3)]}[name]


def fbytes(g):
    return (float(g.time), int(g.it), tuple(d.tobytes() for d in g.data))


class Runner:
    """one solver object; executes operations and returns observations"""

    def __init__(self, cls, sysname, ctor_mon="none"):
        self.cls, self.sysname = cls, sysname
        self.model, self.m, self.disc, self.fs, self.var = system(sysname, fresh=True)
        self.ctor = mon_spec(ctor_mon, self.var)
        self.solver = cls(self.m, self.disc, monitors=self.ctor) if ctor_mon != "none" else cls(self.m, self.disc)
        self.last = None
        self.trajs = {}

    def traj(self, fkey):
        if fkey not in self.trajs:
            self.trajs[fkey] = reftraj(self.cls, self.sysname, fkey)
        return self.trajs[fkey]

    def other_solver(self):
        """another integrator object working on the same discretisation (and one of another class on a field of its own) between two calls"""
        for c in (self.cls, space.integ.rk3ssp, space.integ.implicit):
            s2 = c(self.m, self.disc)
            f = space.field.fdata(self.model, self.m, [d.copy() for d in self.fs["a"]])
            with np.errstate(all="ignore"), core.time_limit(HORIZON):
                s2.solve(f, 0.25, stop={"maxit": 2}, monitors={"residual": {"frequency": 1}})

    def op(self, o, shared_mon=None):
        """o = dict(op='solve'|'restart', f='a'|'b', save=<name>, maxit=int, mon=<kind>)"""
        if o["op"] == "other-solver":
            self.other_solver()
            return None
        mons = shared_mon if shared_mon is not None else mon_spec(o.get("mon", "none"), self.var)
        if o["op"] == "solve":
            f = space.field.fdata(self.model, self.m, [d.copy() for d in self.fs[o["f"]]])
            ts = save_times(self.traj(o["f"]), o.get("save", "none"))
            call = self.solver.solve
        else:
            f = self.last
            ts = [f.time + x for x in o.get("rsave", [])]
            call = self.solver.restart
        # an explicit far stop time overrides the default "stop at the last save time", so that sibling probes run the same N iterations
        stop = {"maxit": o["maxit"], "tottime": 1e30}
        if o.get("bare_stop"):
            stop = {"maxit": o["maxit"]}
        direc = {"dtlocal": True} if o.get("dtlocal") else {}
        ts_given = list(ts)
        args_before = (dict(stop), list(ts_given), dict(direc), {k: {a: b for a, b in v.items() if a != "output"} for k, v in mons.items()})
        with np.errstate(all="ignore"), core.time_limit(HORIZON):
            # empty arguments are left to the library's defaults, as a user would: the default objects are shared by every call of the process
            kw = {"stop": stop}
            if mons or shared_mon is not None:
                kw["monitors"] = mons
            if direc:
                kw["directives"] = direc
            out = call(f, o.get("cfl", CFL), ts_given, **kw) if ts_given else call(f, o.get("cfl", CFL), **kw)
        args_after = (dict(stop), list(ts_given), dict(direc), {k: {a: b for a, b in v.items() if a != "output"} for k, v in mons.items()})
        self.args_changed = getattr(self, "args_changed", None) or (None if args_after == args_before else
                                                                    "stop/save-times/directives/monitor arguments changed from %r to %r" % (args_before, args_after))
        sols = list(out.solutions)
        self.last = sols[-1]
        self.kept = getattr(self, "kept", [])
        self.kept.append((sols, tuple(fbytes(g) for g in sols), f, fbytes(f)))
        obs = {"fields": tuple(fbytes(g) for g in sols), "nit": self.solver.nit(), "totnit": self.solver.totnit()}
        qn = getattr(self.solver, "Qn", None)
        obs["Qn"] = fbytes(qn)[::2] if qn is not None else None
        allm = dict(self.ctor)
        allm.update(mons)
        obs["mon"] = {k: (tuple(v["output"]._it), tuple(float(x) for x in v["output"]._time), tuple(float(x) for x in v["output"]._value))
                      for k, v in allm.items() if "output" in v}
        return obs


def first_diff(a, b):
    for k in ("fields", "nit", "totnit", "Qn", "mon"):
        if a[k] != b[k]:
            if k == "fields":
                if len(a[k]) != len(b[k]):
                    return "number of returned fields %d vs %d" % (len(a[k]), len(b[k]))
                for i, (x, y) in enumerate(zip(a[k], b[k])):
                    if x != y:
                        if x[0] != y[0] or x[1] != y[1]:
                            return "field %d (time, it) = %r vs %r" % (i, x[:2], y[:2])
                        dx = max(np.abs(np.frombuffer(p) - np.frombuffer(q)).max() for p, q in zip(x[2], y[2]))
                        return "field %d data differ by %.3g" % (i, dx)
            if k == "Qn" and a[k] and b[k]:
                dx = max(np.abs(np.frombuffer(p) - np.frombuffer(q)).max() for p, q in zip(a[k][1], b[k][1]))
                return "final state solver.Qn: time %r vs %r, data differ by %.3g" % (a[k][0], b[k][0], dx)
            if k == "mon":
                return "monitor records %r vs %r" % ({n: (v[0], v[1]) for n, v in a[k].items()}, {n: (v[0], v[1]) for n, v in b[k].items()})
            return "%s: %r vs %r" % (k, a[k], b[k])
    return None


DISTURB = [
    {"op": "solve", "f": "a", "save": "none", "maxit": 2},
    {"op": "solve", "f": "a", "save": "early+late", "maxit": 3, "mon": "f1"},
    {"op": "solve", "f": "b", "save": "early", "maxit": 1},
    {"op": "solve", "f": "b", "save": "none", "maxit": 3, "mon": "mix"},
    {"op": "solve", "f": "a", "save": "start+late", "maxit": 4},
    {"op": "solve", "f": "a", "save": "early2", "maxit": 1, "mon": "mix"},
    {"op": "restart", "maxit": 1},
    {"op": "restart", "maxit": 2, "rsave": [1e-3], "mon": "f1"},
    {"op": "solve", "f": "b", "save": "none", "maxit": 2, "cfl": 0.8},       # another CFL number on the same objects
    {"op": "restart", "maxit": 1, "cfl": 0.15},
    {"op": "solve", "f": "a", "save": "early", "maxit": 2, "dtlocal": True},   # a directive given to one call only
    {"op": "other-solver"},                                                    # other integrator objects use the same discretisation in between
    {"op": "restart", "maxit": 1, "dtlocal": True},                                   # a directive given to a restart only
    {"op": "solve", "f": "a", "save": "early+late", "maxit": 3, "bare_stop": True},  # stop = {"maxit": 3} only: the end time is left to the default (last save time)
]
PROBE_SAVES = ["none", "early", "early2", "late", "early+late", "all", "start+late"]
PROBE_MONS = ["none", "f1", "mix"]


def check_monitor_records(R, obs, fkey, it0, what, out, site):
    """each call adds exactly the multiples of the frequency in [it0, it0+N] with time and value of the trajectory state"""
    Q, _ = R.traj(fkey)
    spec = {"residual": ("residual", 1), "r": ("residual", 2), "a": ("data_average", 3)}
    N = obs["nit"]
    for name, (its, times, vals) in obs["mon"].items():
        kind, freq = spec[name]
        want = [k for k in range(it0, it0 + N + 1) if k % freq == 0]
        if list(its) != want:
            out.append((site + "/monitor-iterations", "%s: monitor %r recorded at %r, multiples of %d in [%d,%d] are %r" % (what, name, list(its), freq, it0, it0 + N, want)))
            continue
        for k, t, v in zip(its, times, vals):
            q = Q[k - it0] if it0 == 0 else None
            if q is None:
                continue
            with np.errstate(all="ignore"):
                ref = R.disc.all_L2average(R.disc.rhs(q)) if kind == "residual" else q.average(R.var)
            if not (t == q.time or abs(t - q.time) <= 4 * EPS * abs(q.time)):
                out.append((site + "/monitor-time", "%s: monitor %r at it %d has time %r, state time %r" % (what, name, k, t, q.time)))
                break
            if not (v == ref or abs(v - ref) <= 64 * EPS * max(abs(ref), 1e-300)):
                out.append((site + "/monitor-value", "%s: monitor %r at it %d has value %r, recomputed from the state %r" % (what, name, k, v, ref)))
                break


def explore(iname, sysname, ctor_mon, depth, res=None):
    """returns list of (site, what, case)"""
    cls = space.integrators()[iname]
    out = []
    site = "C08/%s" % iname
    base_case = {"integrator": iname, "system": sysname, "ctor_mon": ctor_mon}

    def add(rule, what, hist):
        out.append(("%s/%s" % (site, rule), "%s on %s%s: %s" % (iname, sysname, " (constructor monitors)" if ctor_mon != "none" else "", what),
                    dict(base_case, history=hist, rule=rule)))

    def run_hist(hist):
        R = Runner(cls, sysname, ctor_mon)
        obs = []
        for o in hist:
            if o["op"] == "restart" and R.last is None:
                return R, None
            ob = R.op(o)
            if ob is not None:
                obs.append(ob)
            if res is not None:
                res.transitions += 1
        if getattr(R, "args_changed", None):
            add("call-modifies-its-arguments", R.args_changed, hist)
        # what earlier calls returned (and were given) belongs to the caller: later calls on the same solver must not change it
        solve_ops = [o for o in hist if o["op"] != "other-solver"]
        for k, (sols, seen, fin, fin_seen) in enumerate(getattr(R, "kept", [])):
            now = tuple(fbytes(g) for g in sols)
            if now != seen:
                add("later-call-modifies-earlier-results", "fields returned by call %d of the history were changed by a later call (%s)" % (
                    k + 1, first_diff({"fields": now, "nit": 0, "totnit": 0, "Qn": None, "mon": {}}, {"fields": seen, "nit": 0, "totnit": 0, "Qn": None, "mon": {}})), hist)
                break
            if fbytes(fin) != fin_seen and solve_ops[k]["op"] == "solve":
                add("call-modifies-its-input-field", "the field handed to call %d of the history was changed" % (k + 1), hist)
                break
        return R, obs

    # fresh observations of every probe (the reference side of the differential oracle)
    fresh = {}
    for sv in PROBE_SAVES:
        for mk in PROBE_MONS:
            probe = {"op": "solve", "f": "b", "save": sv, "maxit": 3, "mon": mk}
            try:
                R, obs = run_hist([probe])
            except Exception as e:
                add("exception", "fresh %r raised %r" % (probe, e), [probe])
                continue
            fresh[(sv, mk)] = obs[0]
            if res is not None:
                res.evals += 1
                res.traces += 1
                res.states.add(hash((iname, sysname, ctor_mon, "fresh", sv, mk, obs[0]["fields"], obs[0]["Qn"])))
            check_monitor_records(R, obs[0], "b", 0, "solve(f1, save=%s, monitors=%s)" % (sv, mk), out_mon := [], site)
            for s, w in out_mon:
                out.append((s, "%s on %s: %s" % (iname, sysname, w), dict(base_case, history=[probe], rule="monitor")))
    if ("none", "none") not in fresh:
        return out
    ref0 = fresh[("none", "none")]
    # (b)+(c) siblings: save lists and monitors do not change the trajectory
    for (sv, mk), o in fresh.items():
        hist = [{"op": "solve", "f": "b", "save": sv, "maxit": 3, "mon": mk}]
        if o["Qn"] is not None and ref0["Qn"] is not None and o["Qn"] != ref0["Qn"]:
            rule = "snapshots-change-trajectory" if sv != "none" else "monitors-change-trajectory"
            add(rule, "final state after 3 iterations with save=%s monitors=%s differs from the plain run: %s" % (sv, mk, first_diff(
                {"fields": (), "nit": 0, "totnit": 0, "Qn": o["Qn"], "mon": {}}, {"fields": (), "nit": 0, "totnit": 0, "Qn": ref0["Qn"], "mon": {}})), hist)
        if o["nit"] != ref0["nit"]:
            add("iteration-count-depends-on-save-or-monitors", "nit %d vs %d" % (o["nit"], ref0["nit"]), hist)
        if mk != "none":
            o2 = fresh.get((sv, "none"))
            if o2 and o["fields"] != o2["fields"]:
                add("monitors-change-returned-fields", "save=%s: %s" % (sv, first_diff(o, dict(o2, mon=o["mon"]))), hist)
        # the per-iteration monitor (frequency 1) is an API-level observation of the whole trajectory
        if mk == "f1" and ("none", "f1") in fresh and o["mon"] != fresh[("none", "f1")]["mon"]:
            add("snapshots-change-trajectory", "save=%s changes the per-iteration residual monitor: %r vs %r" % (
                sv, o["mon"]["residual"][2], fresh[("none", "f1")]["mon"]["residual"][2]), hist)
    # common snapshots of nested save lists are bit-identical
    nest = [("late", "early+late"), ("late", "all"), ("early", "early2"), ("early", "all"), ("late", "start+late"), ("early+late", "all")]
    for small, big in nest:
        a, b = fresh.get((small, "none")), fresh.get((big, "none"))
        if not a or not b:
            continue
        tb = {f[0]: f for f in b["fields"]}
        for f in a["fields"]:
            if f[0] in tb and (f[2] != tb[f[0]][2] or f[1] != tb[f[0]][1]):
                add("earlier-snapshots-change-later-ones", "snapshot at t=%r differs between save=%s and save=%s" % (f[0], small, big),
                    [{"op": "solve", "f": "b", "save": big, "maxit": 3}])
    # (a)+(e) histories: prefix of disturbing operations, then the probe on the same object
    prefixes = [()]
    for d in range(1, depth + 1):
        prefixes += list(itertools.product(range(len(DISTURB)), repeat=d))
    for pre in prefixes:
        hist0 = [DISTURB[i] for i in pre]
        if hist0 and hist0[0]["op"] == "restart":
            continue
        for (sv, mk), want in fresh.items():
            if pre and mk == "mix" and sv not in ("none", "all"):
                continue
            probe = {"op": "solve", "f": "b", "save": sv, "maxit": 3, "mon": mk}
            hist = hist0 + [probe] + ([probe] if not pre else [])       # empty prefix: the probe twice on the same object
            try:
                R, obs = run_hist(hist)
            except core.CallTimeout:
                add("non-termination", "history did not return", hist)
                continue
            except Exception as e:
                add("exception", "history raised %r" % (e,), hist)
                continue
            if obs is None:
                continue
            got = obs[-1]
            if res is not None:
                res.evals += 1
                res.traces += 1
                res.nontrivial += 1
                hid = getattr(R.solver, "_lastresidual", None)
                res.states.add(hash((iname, sysname, ctor_mon, got["fields"], got["Qn"], tuple(sorted((k, v[0]) for k, v in got["mon"].items())),
                                     tuple(np.asarray(x).tobytes() for x in hid) if hid is not None else None, hasattr(R.solver, "jacobian_use"))))
            d = first_diff(got, want)
            if d:
                rule = "repeat-on-same-object" if not pre else "depends-on-previous-calls"
                add(rule, "solve(f1, save=%s, monitors=%s) after %d earlier call(s) differs from the same call on a fresh solver: %s" % (sv, mk, len(hist) - 1, d), hist)
    # deep traces (not exhaustive at that depth, a supplement to the tree above): three fixed orders of ALL disturbing letters, cut after 5, 9 and
    # 12 operations, then a probe - a defect that needs a fourth or a tenth call on the same object to show
    order = list(range(len(DISTURB)))
    paths = [order, order[::-1], [0, 6, 2, 7, 8, 9, 3, 6, 10, 7, 11, 6, 12, 13]]
    for path in paths:
        if DISTURB[path[0]]["op"] == "restart":
            path = [0] + path
        for L in (5, 9, len(path)):
            hist0 = [DISTURB[i] for i in path[:L]]
            for (sv, mk) in (("none", "none"), ("all", "mix")):
                want = fresh.get((sv, mk))
                if want is None:
                    continue
                probe = {"op": "solve", "f": "b", "save": sv, "maxit": 3, "mon": mk}
                hist = hist0 + [probe]
                try:
                    R, obs = run_hist(hist)
                except core.CallTimeout:
                    add("non-termination", "history did not return", hist)
                    continue
                except Exception as e:
                    add("exception", "history raised %r" % (e,), hist)
                    continue
                if obs is None:
                    continue
                if res is not None:
                    res.evals += 1
                    res.traces += 1
                    res.nontrivial += 1
                    res.census["deep-traces"] += 1
                d = first_diff(obs[-1], want)
                if d:
                    add("depends-on-previous-calls", "solve(f1, save=%s, monitors=%s) after %d earlier calls differs from the same call on a fresh solver: %s" % (sv, mk, len(hist) - 1, d), hist)
    # (d) restart: solve N then restart M == solve N+M  (same object), with and without monitors, after a disturbing prefix
    for pre in [()] + [(i,) for i in range(len(DISTURB)) if DISTURB[i]["op"] == "solve"]:
        for N, M, mk, fk in itertools.product((1, 2, 3), (1, 2), ("none", "mix", "f1"), ("a", "b")):
            if pre and (fk == "a" or mk == "f1"):
                continue
            hist0 = [DISTURB[i] for i in pre]
            try:
                R = Runner(cls, sysname, ctor_mon)
                for o in hist0:
                    R.op(o)
                shared = mon_spec(mk, R.var)
                o1 = R.op({"op": "solve", "f": fk, "maxit": N}, shared_mon=shared)
                o2 = R.op({"op": "restart", "maxit": M}, shared_mon=shared)
                R2 = Runner(cls, sysname, ctor_mon)
                one = R2.op({"op": "solve", "f": fk, "maxit": N + M, "mon": mk})
            except Exception as e:
                add("exception", "restart history raised %r" % (e,), hist0 + [{"op": "solve", "f": fk, "maxit": N, "mon": mk}, {"op": "restart", "maxit": M}])
                continue
            if res is not None:
                res.evals += 1
                res.traces += 1
                res.nontrivial += 1
                res.transitions += 3 + len(hist0)
            hist = hist0 + [{"op": "solve", "f": fk, "maxit": N, "mon": mk}, {"op": "restart", "maxit": M, "mon": mk}]
            a, b = o2["fields"][-1], one["fields"][-1]
            if (a[0], a[2]) != (b[0], b[2]):
                add("restart-state", "solve(%d)+restart(%d) vs solve(%d): %s" % (N, M, N + M, first_diff(dict(o2, fields=(a,), nit=0, totnit=0, Qn=None, mon={}),
                                                                                          dict(one, fields=(b,), nit=0, totnit=0, Qn=None, mon={}))), hist)
            if o2["totnit"] != N + M or a[1] != b[1]:
                add("restart-cumulative-count", "solve(%d)+restart(%d): totnit()=%d, field tag it=%d; one solve: %d, %d" % (N, M, o2["totnit"], a[1], one["totnit"], b[1]), hist)
            if mk != "none":
                # records of the two calls: [0..N] then [N..N+M]; of the single solve: [0..N+M]; identical except that iteration N is recorded by both calls
                for name, (its, times, vals) in one["mon"].items():
                    if name not in o2["mon"]:
                        add("restart-monitor-records", "monitor %r missing after restart" % name, hist)
                        continue
                    rits, rtimes, rvals = o2["mon"][name]
                    merged = {}
                    for k, t, v in zip(rits, rtimes, rvals):
                        if k in merged and merged[k] != (t, v):
                            add("restart-monitor-records", "monitor %r records iteration %d twice with different content" % (name, k), hist)
                        merged[k] = (t, v)
                    if sorted(merged) != list(its) or any(merged[k] != (t, v) for k, t, v in zip(its, times, vals)):
                        add("restart-monitor-records", "monitor %r after solve(%d)+restart(%d): iterations %r; one solve of %d: %r (or different time/value)"
                            % (name, N, M, list(rits), N + M, list(its)), hist)
    return out


def shard(arg):
    iname, sysname, ctor_mon, depth = arg
    res = core.Res()
    for s, w, c in explore(iname, sysname, ctor_mon, depth, res):
        res.violation(s, w, c)
    res.sample({"integrator": iname, "system": sysname, "ctor_monitors": ctor_mon,
                "history": [DISTURB[1], DISTURB[6], {"op": "solve", "f": "b", "save": "early+late", "maxit": 3, "mon": "f1"}]}, cap=1)
    return res


def run(ctx):
    names = list(space.integrators())
    cfg = []
    for i in names:
        impl = space.is_implicit(space.integrators()[i])
        for s in ("conv6-muscl", "burgers4", "euler4"):
            for cm in ("none", "mix"):
                depth = 2 if (ctx.thorough or not impl) and cm == "none" else 1
                if ctx.thorough and not impl:
                    depth = 3 if (s == "burgers4" and cm == "none") else 2
                cfg.append((i, s, cm, depth))
    cfg.sort(key=lambda c: (not space.is_implicit(space.integrators()[c[0]]), -c[3], c))
    ctx.pmap("histories", shard, cfg)


def replay(case):
    depth = max(1, len(case.get("history", [])) - 1)
    depth = min(depth, 3)
    v = explore(case["integrator"], case["system"], case["ctor_mon"], depth)
    rule = case.get("rule")
    hit = [(s, w) for s, w, c in v if c.get("history") == case.get("history") and c.get("rule") == rule]
    if hit:
        return hit
    return [(s, w) for s, w, c in v if c.get("rule") == rule]
