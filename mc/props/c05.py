"""C05 - explicit Runge-Kutta integrators meet their order conditions for every RHS.

Shape A with a model bound to the code:
 1. model extraction (exhaustive): each explicit class is driven with a probe
    right-hand side whose k-th evaluation returns the unit vector e_k and records
    the (data, time) it was given; stage inputs decode row k of A exactly, the
    result decodes b, the recorded times c and the final time the advance.
 2. checking the model: all rooted-tree order conditions up to the nominal order,
    sum(b)=1, A.1=c=presented time, SSP criterion, stability polynomial, propagator().
 3. conformance (traces validated against the implementation): the real step() is
    compared with a generic RK loop run from the decoded tableau on the real rhs of
    real discretisations, for every data assignment of an alphabet, scalar and
    per-cell dt, two consecutive steps on the same object and on fresh objects.
"""
import itertools
import math

import numpy as np

from .. import core, space

ID = "C05"
LEVEL = "model_checking"
RULE = ("model: Butcher tableau decoded from the real step() of every explicit class with a unit-vector probe RHS (dt in {1,1/2,3}, t0 in {0,3}, "
        "scalar and array dt); conformance: BFS depth 2 over real step() calls from every data assignment of a 4-letter alphabet on 3 cells x "
        "{convection,burgers,euler1d/hllc,shallowwater/hll} x {extrapol1,muscl:vanleer,extrapol3} x {periodic,wall/dirichlet} x 3 dt shapes; "
        "non-trivial = non-uniform data (residual not identically zero)")
ASSUMPTIONS = ["order conditions are evaluated on the decoded double-precision coefficients with tolerance 32 eps",
               "published Bogey-Bailly coefficients are matched to 1e-9 (they are tabulated with 12 decimals; the betas of the code reproduce them to 1e-10)",
               "'for every RHS' is covered by conformance on the alphabet of real discretisations, not beyond"]
EPS = np.finfo(float).eps

NOMINAL = {"explicit": 1, "forwardeuler": 1, "rk2": 2, "rk2_heun": 2, "rk3_heun": 3, "rk3ssp": 3, "rk4": 4,
           "lsrk25bb": 2, "lsrk26bb": 2, "lsrk4": 2}
SSP = ("rk3ssp", "rk2_heun")
POLY = {"lsrk25bb": [1.0, 1.0, 0.5, 0.165250353664, 0.039372585984, 0.007149096448],
        "lsrk26bb": [1.0, 1.0, 0.5, 0.165919771368, 0.040919732041, 0.007555704391, 0.000891421261],
        "lsrk4": [1.0, 1.0, 0.5, 1.0 / 6.0, 1.0 / 24.0]}


class _M:
    neq = 1
    shape = [1]


class _Mesh:
    def __init__(self, n):
        self.ncell = n


class ProbeDisc:
    """k-th rhs call returns e_k and records what it was given"""

    def __init__(self, n):
        self.n = n
        self.calls = []

    def rhs(self, f):
        k = len(self.calls)
        self.calls.append((f.data[0].copy(), float(f.time)))
        e = np.zeros(self.n)
        if k < self.n:
            e[k] = 1.0
        return [e]


def extract(cls, dt=1.0, t0=0.0, n=12, array_dt=False, zero=True):
    mesh = _Mesh(n)
    disc = ProbeDisc(n)
    solver = cls(mesh, disc)
    # from a zero field and dt=1 the stage inputs ARE the rows of A (exact decoding); the non-zero variant probes that
    # the coefficients do not depend on the data
    y0 = np.zeros(n) if zero else np.linspace(0.25, 1.0, n)
    f = space.field.fdata(_M(), mesh, [y0.copy()], t=t0)
    dta = dt * (1.0 + np.arange(n) % 3) if array_dt else dt
    solver.step(f, dta)
    s = len(disc.calls)
    if s > n:
        raise RuntimeError("more than %d stages" % n)
    dtv = np.asarray(dta, float) * np.ones(n)
    A = np.zeros((s, s))
    c = np.zeros(s)
    for k, (y, t) in enumerate(disc.calls):
        row = (y - y0) / dtv
        A[k, :] = row[:s]
        c[k] = (t - t0) / np.min(dtv)
    b = ((f.data[0] - y0) / dtv)[:s]
    adv = (f.time - t0) / np.min(dtv)
    extra = float(np.abs(((f.data[0] - y0) / dtv)[s:]).max()) if s < n else 0.0
    return {"A": A, "b": b, "c": c, "advance": adv, "stages": s, "leak": extra}


def tree_conditions(A, b, order):
    c = A.sum(axis=1)
    conds = [("order1: sum b", b.sum(), 1.0)]
    if order >= 2:
        conds.append(("order2: b.c", b @ c, 0.5))
    if order >= 3:
        conds += [("order3: b.c^2", b @ c ** 2, 1.0 / 3.0), ("order3: b.A.c", b @ A @ c, 1.0 / 6.0)]
    if order >= 4:
        conds += [("order4: b.c^3", b @ c ** 3, 0.25), ("order4: b.(c*Ac)", b @ (c * (A @ c)), 0.125),
                  ("order4: b.A.c^2", b @ A @ c ** 2, 1.0 / 12.0), ("order4: b.A.A.c", b @ A @ A @ c, 1.0 / 24.0)]
    return conds


def check_model(name, res=None):
    """returns list of (site, what); decodes under several (dt, t0, dt-shape) and checks the model"""
    cls = space.integrators()[name]
    out = []
    base = None
    for dt, t0, arr in [(1.0, 0.0, False), (0.5, 3.0, False), (3.0, 0.0, False), (1.0, 0.0, True), (0.125, 3.0, True)]:
        m = extract(cls, dt, t0, array_dt=arr, zero=(base is None))
        if res is not None:
            res.evals += 1
            res.transitions += 1
        tag = "dt=%g,t0=%g,%s" % (dt, t0, "array" if arr else "scalar")
        if base is None:
            base = m
        else:
            # the tableau does not depend on dt, t0 or the shape of dt (an RK step is linear in dt)
            for key in ("A", "b", "c"):
                if m[key].shape != base[key].shape or not np.all(np.abs(m[key] - base[key]) <= 64 * EPS * (1 + abs(t0) / dt)):
                    out.append(("C05/%s/model/tableau-independent-of-dt-and-t0/%s" % (name, key), "%s decoded %s under %s differs from dt=1,t0=0: %r vs %r"
                                % (name, key, tag, m[key].tolist(), base[key].tolist())))
        if not abs(m["advance"] - 1.0) <= 8 * EPS * (1 + abs(t0) / dt):
            out.append(("C05/%s/model/time-advance" % name, "%s advances time by %r x min(dt) under %s" % (name, m["advance"], tag)))
        if m["leak"] != 0.0:
            out.append(("C05/%s/model/not-a-linear-combination-of-stage-rhs" % name, "%s: result moved untouched components by %r" % (name, m["leak"])))
    A, b, c, s = base["A"], base["b"], base["c"], base["stages"]
    if np.abs(np.triu(A)).max() != 0.0:
        out.append(("C05/%s/model/explicit" % name, "%s: stage input depends on a later or the same stage: A=%r" % (name, A.tolist())))
    order = NOMINAL.get(name)
    if order is None:
        if res is not None:
            res.census["unjudged-explicit-class/%s" % name] += 1
        order = 1
    for label, got, want in tree_conditions(A, b, order):
        if res is not None:
            res.evals += 1
            res.worst("order-condition-defect/eps", abs(got - want) / EPS)
        if not abs(got - want) <= 32 * EPS:
            out.append(("C05/%s/model/%s" % (name, label.split(":")[0]), "%s %s = %r, required %r (A=%r b=%r)" % (name, label, got, want, A.tolist(), b.tolist())))
    rows = A.sum(axis=1)
    if not np.all(np.abs(rows - c) <= 32 * EPS):
        out.append(("C05/%s/model/stage-time-equals-abscissa" % name, "%s: time presented to the stages t+%r*dt, abscissae c=A.1=%r" % (name, c.tolist(), rows.tolist())))
    if name in SSP:
        K = np.zeros((s + 1, s + 1))
        K[:s, :s] = A
        K[s, :s] = b
        inv = np.linalg.inv(np.eye(s + 1) + K)
        P, e = K @ inv, inv @ np.ones(s + 1)
        if res is not None:
            res.evals += 1
        if not (P.min() >= -32 * EPS and e.min() >= -32 * EPS):
            out.append(("C05/%s/model/ssp-coefficient-1" % name, "%s is not a convex combination of forward-Euler steps at r=1: min K(I+K)^-1 = %r, min (I+K)^-1 1 = %r"
                        % (name, P.min(), e.min())))
    # stability polynomial from the decoded tableau and from the public propagator()
    gam = [1.0] + [float(b @ np.linalg.matrix_power(A, k) @ np.ones(s)) for k in range(s)]
    if name in POLY:
        want = POLY[name]
        ok = len(gam) == len(want) and all(abs(x - y) <= 1e-9 for x, y in zip(gam, want))
        if not ok:
            out.append(("C05/%s/model/stability-polynomial" % name, "%s: coefficients %r, published %r" % (name, gam, want)))
    solver = cls(_Mesh(1), ProbeDisc(1))
    grid = [complex(x, y) for x in np.linspace(-3, 0.5, 9) for y in np.linspace(-3, 3, 9)]
    for z in grid:
        with np.errstate(all="ignore"):
            pz = complex(np.asarray(solver.propagator(z)).ravel()[0])
        ref = sum(g * z ** k for k, g in enumerate(gam))
        if res is not None:
            res.evals += 1
        if not abs(pz - ref) <= 256 * EPS * sum(abs(g) * abs(z) ** k for k, g in enumerate(gam)):
            out.append(("C05/%s/model/propagator-equals-stability-polynomial" % name, "%s: propagator(%r)=%r, polynomial %r" % (name, z, pz, ref)))
            break
    return out, base


# ---------------------------------------------------------------------------
# conformance on real discretisations
MODELS = {"convection": (("convection", 1.0), None), "convection-": (("convection", -1.5), None), "burgers": (("burgers",), None),
          "euler1d": (("euler1d", 1.4), "hllc"), "shallowwater": (("shallowwater", 9.81), "hll")}
RECONS = ["extrapol1", "muscl:vanleer", "extrapol3"]


def alphabet(mname):
    if mname.startswith("conv") or mname == "burgers":
        return [np.array([v]) for v in (1.0, 3.0, 0.5, 2.0)]      # positive: Burgers step bounded, no vacuum issue
    if mname == "euler1d":
        st = [space.euler_state(1.0, 0.0, 1.0), space.euler_state(0.5, 0.5, 0.4), space.euler_state(1.0, -0.3, 2.0), space.euler_state(2.0, 1.5, 1.0)]
        return [np.array([r, r * u, p / 0.4 + 0.5 * r * u * u]) for r, u, p in st]
    st = [space.sw_state(1.0, 0.0), space.sw_state(0.5, 0.5), space.sw_state(2.0, -0.3), space.sw_state(1.0, 1.5)]
    return [np.array([h, h * u]) for h, u in st]


def build_disc(mname, rname, bc):
    spec, flux = MODELS[mname]
    model = space.make_model(spec)
    m = space.mesh_spec(("w", (1.0, 0.5, 2.0)))
    if bc == "per":
        bl = br = {"type": "per"}
    elif mname in ("euler1d", "shallowwater"):
        bl = br = {"type": "sym"}
    else:
        bl, br = {"type": "dirichlet", "prim": [np.float64(1.5)]}, {"type": "dirichlet", "prim": [np.float64(0.75)]}
    disc = space.modeldisc.fvm(model, m, space.recon(rname), numflux=flux, bcL=bl, bcR=br)
    return model, m, disc


class RecDisc:
    """wraps a real discretisation, recording the time stamp of every field handed to rhs"""

    def __init__(self, disc):
        self._d = disc
        self.times = []

    def rhs(self, f):
        self.times.append(float(np.ravel(f.time)[0]))
        return self._d.rhs(f)

    def __getattr__(self, k):
        return getattr(self._d, k)


def ref_step(disc, f0, dt, tab):
    A, b, c = tab["A"], tab["b"], tab["c"]
    s = len(b)
    ks = []
    dmin = float(np.min(dt))
    for i in range(s):
        y = f0.copy()
        for q in range(y.neq):
            for j in range(i):
                if A[i, j] != 0.0:
                    y.data[q] = y.data[q] + dt * A[i, j] * ks[j][q]
        y.time = f0.time + c[i] * dmin
        with np.errstate(all="ignore"):
            ks.append([np.array(r, float).copy() for r in disc.rhs(y)])
    out = f0.copy()
    for q in range(out.neq):
        for j in range(s):
            out.data[q] = out.data[q] + dt * b[j] * ks[j][q]
    out.time = f0.time + dmin * float(np.sum(b))
    return out, ks


def state_key(f):
    return hash((tuple(d.tobytes() for d in f.data), float(np.ravel(f.time)[0])))


def conform(iname, mname, rname, bc, idx, dtmode, tab, res=None):
    out = []
    cls = space.integrators()[iname]
    model, m, disc = build_disc(mname, rname, bc)
    al = alphabet(mname)
    data = [np.array([al[i][k] for i in idx]) for k in range(model.neq)]
    f0 = space.field.fdata(model, m, data, t=0.25)
    with np.errstate(all="ignore"):
        dtc = np.asarray(disc.calc_timestep(f0, 1.0), float)
    if dtmode == "array0":
        dt = 0.4 * dtc
        dt[0] = 0.0              # a frozen cell among advancing ones: the step is still the RK step with that array
    elif dtmode == "array":
        dt = 0.4 * dtc
    elif ":" in dtmode:
        # the same scalar step written as a numpy scalar, a 0-d array or a one-element array
        how, x = dtmode.split(":")
        v = float(x) * float(dtc.min())
        dt = {"np64": np.float64(v), "0d": np.array(v), "1el": np.array([v])}[how]
    else:
        dt = float(dtmode) * float(dtc.min())
    rec = RecDisc(disc)
    solver = cls(m, rec)
    site = "C05/%s/conformance" % iname
    cur = f0
    for depth in (1, 2):
        if depth == 2 and isinstance(dt, np.ndarray):
            dt *= 0.5       # the caller's own array, updated in place between two steps: the second step uses its current values
        a = cur.copy()
        rec.times = []
        with np.errstate(all="ignore"):
            solver.step(a, dt)
        times = list(rec.times)
        if np.ndim(a.time) != 0 or np.ndim(cur.time) != 0:
            out.append((site + "/time-is-a-number", "%s with dt=%r (%s): the field's time is %r after the step (and %r on the field it was copied from)" % (iname, dt, dtmode, a.time, cur.time)))
            break
        r, ks = ref_step(disc, cur, dt, tab)
        scale = max(np.abs(d).max() for d in cur.data) + float(np.max(dt)) * max(max(np.abs(k).max() for k in kk) for kk in ks)
        if res is not None:
            res.transitions += 1
            res.traces += 1
            res.states.add(state_key(a))
        if not all(np.all(np.isfinite(d)) for d in r.data):
            if res is not None:
                res.skipped += 1
            break
        err = max(np.abs(x - y).max() / max(np.abs(y).max() + float(np.max(dt)) * max(np.abs(k[q]).max() for k in ks), 1e-300)
                  for q, (x, y) in enumerate(zip(a.data, r.data)))
        if res is not None:
            res.worst("step-vs-reference-RK/eps", err / EPS)
            res.census["bit-identical" if err == 0 else "round-off"] += 1
        if not err <= 64 * EPS:
            out.append((site + "/step-is-the-decoded-RK-step", "%s on %s/%s/%s data %r dt=%s depth %d: step differs from the RK step of its own tableau by %.3g (relative)"
                        % (iname, mname, rname, bc, idx, dtmode, depth, err)))
            break
        dmin = float(np.min(dt))
        want = [cur.time + ci * dmin for ci in tab["c"]]
        if len(times) != len(want) or not all(abs(x - y) <= 8 * EPS * (abs(y) + dmin) for x, y in zip(times, want)):
            out.append((site + "/stage-times", "%s on %s: rhs was handed times %r, abscissae give %r" % (iname, mname, times, want)))
            break
        if not abs(a.time - (cur.time + dmin)) <= 4 * EPS * (abs(cur.time) + dmin):
            out.append((site + "/time-advance", "%s: time %r -> %r with min dt %r" % (iname, cur.time, a.time, dmin)))
            break

        # no hidden state: the same step on a fresh solver object is bit-identical
        fresh = cls(m, disc)
        c2 = cur.copy()
        with np.errstate(all="ignore"):
            fresh.step(c2, dt)
        if res is not None:
            res.transitions += 1
        if not (all(np.array_equal(x, y) for x, y in zip(a.data, c2.data)) and a.time == c2.time):
            out.append((site + "/no-hidden-state", "%s on %s depth %d: the solver that has already stepped and a fresh one disagree bitwise" % (iname, mname, depth)))
            break
        # the field handed in by the caller is the only thing modified: cur itself untouched
        cur = a
    return out


class AliasDisc:
    """right-hand sides that return the arrays of the field they were given (or views of them): dy/dt = y as [f.data[0]], the oscillator
    [f.data[1], -f.data[0]] and a reversed view; 'copy=True' is the twin that returns fresh arrays"""

    def __init__(self, kind, copy):
        self.kind, self.copy = kind, copy

    def rhs(self, f):
        if self.kind == "identity":
            r = [f.data[0]]
        elif self.kind == "oscillator":
            r = [f.data[1], -f.data[0]]
        else:
            r = [f.data[0][::-1]]
        return [np.array(x, copy=True) for x in r] if self.copy else r


class _M2:
    neq = 2
    shape = [1, 1]


def check_alias(name, res=None):
    """'for every right-hand side' includes one whose result aliases its argument: the step must equal the step with the copying twin"""
    cls = space.integrators()[name]
    out = []
    for kind in ("identity", "oscillator", "reversed-view"):
        model = _M2() if kind == "oscillator" else _M()
        mesh = _Mesh(3)
        y0 = [np.array([1.0, -2.0, 0.5])] if kind != "oscillator" else [np.array([1.0, -2.0, 0.5]), np.array([0.25, 3.0, -1.0])]
        results = []
        for copy in (True, False):
            solver = cls(mesh, AliasDisc(kind, copy))
            f = space.field.fdata(model, mesh, [y.copy() for y in y0], t=0.5)
            with np.errstate(all="ignore"):
                solver.step(f, 0.1)
                solver.step(f, 0.1)
            results.append([d.copy() for d in f.data])
        if res is not None:
            res.evals += 1
            res.transitions += 4
        if not all(np.array_equal(a, b) for a, b in zip(*results)):
            out.append(("C05/%s/aliasing-right-hand-side/%s" % (name, kind), "%s: two steps of dy/dt=%s with a right-hand side that returns (views of) the field's own arrays give %r, "
                        "with the copying twin %r" % (name, kind, [r.tolist() for r in results[1]], [r.tolist() for r in results[0]])))
    return out


def shard_model(name):
    res = core.Res()
    v, tab = check_model(name, res)
    for s, w in v:
        res.violation(s, w, {"kind": "model", "integrator": name})
    for s, w in check_alias(name, res):
        res.violation(s, w, {"kind": "alias", "integrator": name})
    res.states.add(hash(("tableau", name, tab["A"].tobytes(), tab["b"].tobytes())))
    res.nontrivial += 1
    res.sample({"integrator": name, "decoded_A": tab["A"].tolist(), "decoded_b": tab["b"].tolist(), "decoded_c": tab["c"].tolist()}, cap=1)
    return res


def shard_conf(arg):
    iname, mname, rname, bc, tier = arg
    res = core.Res()
    cls = space.integrators()[iname]
    tab = extract(cls)
    n = 3
    for idx in itertools.product(range(4), repeat=n):
        for dtmode in ("0.1", "0.5", "array") + (("array0",) if sum(idx) % 2 else ()) + ((("np64:0.3", "0d:0.3", "1el:0.3")[sum(idx) % 3],) if len(set(idx)) > 1 else ()):
            res.evals += 1
            if len(set(idx)) > 1:
                res.nontrivial += 1
            for s, w in conform(iname, mname, rname, bc, idx, dtmode, tab, res):
                res.violation(s, w, {"kind": "conf", "integrator": iname, "model": mname, "recon": rname, "bc": bc, "idx": list(idx), "dt": dtmode})
    res.sample({"integrator": iname, "model": mname, "recon": rname, "bc": bc, "data_letters": [1, 0, 3], "dt": "array",
                "ops": ["step", "step"]}, cap=1)
    return res


def run(ctx):
    names = list(space.explicit_integrators())
    ctx.pmap("model-extraction+order-conditions", shard_model, names)
    models = list(MODELS) if ctx.thorough else ["convection-", "burgers", "euler1d", "shallowwater"]
    recs = RECONS
    cfg = [(i, mn, r, bc, ctx.tier) for i in names for mn in models for r in recs for bc in ("per", "wall")]
    ctx.pmap("conformance", shard_conf, cfg)


def replay(case):
    if case["kind"] == "model":
        return check_model(case["integrator"])[0]
    if case["kind"] == "alias":
        return check_alias(case["integrator"])
    tab = extract(space.integrators()[case["integrator"]])
    return conform(case["integrator"], case["model"], case["recon"], case["bc"], tuple(case["idx"]), case["dt"], tab)
