"""C20 - meshes are valid partitions with consistent connectivity.

Exhaustive over a product lattice of constructor arguments (ncell 1..12,50,101;
lengths over 9 decades; origins; refinement ratios x zone proportions; morphing
functions; nx,ny in 1..5 x aspect ratios)."""
import itertools

import numpy as np

from .. import core, space

ID = "C20"
LEVEL = "exploration"
RULE = ("every combination of constructor arguments of the lattice, per constructor (unimesh, refinedmesh, morphedmesh, mesh2d); "
        "non-trivial = ncell>=2 (nx*ny>=2); argument tuples are distinct by construction")
ASSUMPTIONS = ["arguments between lattice points are not explored", "morphing functions are strictly increasing on the interval used"]
EPS = np.finfo(float).eps

NCELL = list(range(1, 13)) + [50, 101]
LENGTHS = [1.0, 0.1, 37.5, 1e-3, 1e6]
X0S = [0.0, -4.0, 1e3, 0.3]
MORPHS = {"id": lambda x: x, "sin": lambda x: x + 0.3 * np.sin(x), "affine": lambda x: 2.0 * x + 1.0,
          "square": lambda x: x * x, "exp": lambda x: np.exp(0.1 * x) if np.max(np.abs(x)) < 500 else x}


def judge_1d(m, ncell, lo, hi, tag):
    """generic partition checks; lo/hi expected end points; returns list of (rule, what)"""
    out = []
    xf, xc = np.asarray(m.xf, float), np.asarray(m.xc, float)
    mag = max(abs(lo), abs(hi))
    if xf.shape != (ncell + 1,):
        return [("face-count", "%d faces for ncell=%d" % (xf.size, ncell))]
    if m.ncell != ncell or m.nbfaces() != ncell + 1:
        out.append(("ncell-attribute", "ncell=%r nbfaces=%r" % (m.ncell, m.nbfaces())))
    if not np.all(np.diff(xf) > 0):
        out.append(("strictly-increasing", "faces %r" % xf.tolist()[:8]))
    if not abs(xf[0] - lo) <= 2 * EPS * mag:
        out.append(("first-face", "xf[0]=%r expected %r" % (xf[0], lo)))
    if not abs(xf[-1] - hi) <= 2 * EPS * mag:
        out.append(("last-face", "xf[-1]=%r expected %r" % (xf[-1], hi)))
    if xc.shape != (ncell,) or not np.all(np.abs(xc - 0.5 * (xf[1:] + xf[:-1])) <= 2 * EPS * mag):
        out.append(("centres-are-midpoints", "xc=%r" % xc.tolist()[:6]))
    if not np.array_equal(np.asarray(m.centers()), xc):
        out.append(("centers()-returns-xc", ""))
    v = np.asarray(m.vol(), float)
    if v.shape != (ncell,) or not np.all(v > 0):
        out.append(("positive-volumes", "vol=%r" % v.tolist()[:6]))
    elif not np.all(np.abs(v - np.diff(xf)) <= 2 * EPS * mag):
        out.append(("volumes-are-face-differences", ""))
    elif not abs(v.sum() - (hi - lo)) <= (ncell + 4) * EPS * mag:
        out.append(("volumes-sum-to-length", "sum=%r span=%r" % (v.sum(), hi - lo)))
    if not np.array_equal(np.asarray(m.dx()), v):
        out.append(("dx()-equals-vol()", ""))
    for cst in (1.0, -3.25, 1e-7):
        a = m.average(np.full(ncell, cst))
        if not abs(a - cst) <= 4 * EPS * abs(cst):
            out.append(("average-exact-for-constants", "average(%r)=%r" % (cst, a)))
        l2 = m.L2average(np.full(ncell, cst))
        l1 = m.L1average(np.full(ncell, cst))
        if not (abs(l2 - abs(cst)) <= 8 * EPS * abs(cst) and abs(l1 - abs(cst)) <= 4 * EPS * abs(cst)):
            out.append(("L1/L2-average-exact-for-constants", "L1=%r L2=%r of %r" % (l1, l2, cst)))
    if ncell >= 2 and v.shape == (ncell,) and np.all(v > 0):
        # volume weighting: the average of the indicator of cell 0 is vol[0]/sum
        ind = np.zeros(ncell)
        ind[0] = 1.0
        if not abs(m.average(ind) - v[0] / v.sum()) <= 8 * EPS:
            out.append(("average-is-volume-weighted", "average(indicator of cell 0)=%r, vol fraction %r" % (m.average(ind), v[0] / v.sum())))
    return out


def construct(case):
    k = case["ctor"]
    if k == "uni":
        n = case["ncell"]
        return space.mesh1.unimesh(ncell=np.int64(n) if case.get("npint") else n, length=case["length"], x0=case["x0"])
    if k == "ref":
        return space.mesh1.refinedmesh(ncell=case["ncell"], length=case["length"], ratio=case["ratio"], nratioa=case["a"], nratiob=case["b"])
    if k == "morph":
        return space.mesh1.morphedmesh(ncell=case["ncell"], length=case["length"], x0=case["x0"], morph=MORPHS[case["morph"]])
    return space.mesh2.mesh2d(case["nx"], case["ny"], case["lx"], case["ly"])


def eval_case(case, then=()):
    """the guarantees of the mesh built from `case`, asked after the meshes of `then` were built as well (all alive)"""
    k = case["ctor"]
    out = []
    m = construct(case)
    others = [construct(c) for c in then]
    if k == "uni":
        n, L, x0 = case["ncell"], case["length"], case["x0"]
        out += judge_1d(m, n, x0, x0 + L, k)
        v = np.asarray(m.vol())
        if v.shape == (n,) and not np.all(np.abs(v - L / n) <= 4 * EPS * (abs(x0) + L)):
            out.append(("uniform-cell-size", "vol=%r expected %r" % (v.tolist()[:5], L / n)))
        if m.length != L:
            out.append(("length-attribute", "%r" % m.length))
    elif k == "ref":
        n, L, r, a, b = case["ncell"], case["length"], case["ratio"], case["a"], case["b"]
        out += judge_1d(m, n, 0.0, L, k)
        v = np.asarray(m.vol())
        nc1f = n * a / (a + b)
        if v.shape == (n,) and abs(nc1f - round(nc1f)) < 1e-12:
            nc1 = int(round(nc1f))
            z1, z2 = v[:nc1], v[nc1:]
            tol = 16 * EPS * L
            if z1.size and not np.all(np.abs(z1 - z1.mean()) <= tol):
                out.append(("zone-1-uniform", "%r" % z1.tolist()[:5]))
            if z2.size and not np.all(np.abs(z2 - z2.mean()) <= tol):
                out.append(("zone-2-uniform", "%r" % z2.tolist()[:5]))
            if z1.size and z2.size and not abs(z2.mean() - r * z1.mean()) <= 64 * EPS * L * (1 + r):
                out.append(("zone-size-ratio", "dx2/dx1=%r requested %r (zones %d+%d cells)" % (z2.mean() / z1.mean(), r, z1.size, z2.size)))
    elif k == "morph":
        n, L, x0, mo = case["ncell"], case["length"], case["x0"], case["morph"]
        f = MORPHS[mo]
        lo, hi = float(f(np.array([x0]))[0]), float(f(np.array([x0 + L]))[0])
        out += judge_1d(m, n, lo, hi, k)
        ref = f(np.linspace(0.0, L, n + 1) + x0)
        if np.asarray(m.xf).shape == ref.shape and not np.all(np.abs(m.xf - ref) <= 4 * EPS * max(abs(lo), abs(hi))):
            out.append(("faces-are-images-of-uniform-faces", ""))
    elif k == "2d":
        nx, ny, lx, ly = case["nx"], case["ny"], case["lx"], case["ly"]
        if m.ncell != nx * ny:
            out.append(("cell-count", "%r" % m.ncell))
        nf = (nx + 1) * ny + nx * (ny + 1)
        if m.nbfaces() != nf:
            out.append(("face-count", "%r expected %r" % (m.nbfaces(), nf)))
        v = np.asarray(m.vol(), float)
        dx, dy = lx / nx, ly / ny
        if v.shape != (nx * ny,) or not np.all(np.abs(v - dx * dy) <= 4 * EPS * dx * dy):
            out.append(("cell-volume-dx*dy", "%r" % v.tolist()[:4]))
        elif not abs(v.sum() - lx * ly) <= (nx * ny + 4) * EPS * lx * ly:
            out.append(("volumes-sum-to-area", "%r" % v.sum()))
        if not (abs(m.dx() - dx) <= 2 * EPS * dx and abs(m.dy() - dy) <= 2 * EPS * dy):
            out.append(("dx-dy", ""))
        xx, yy = m.centers()
        xr = np.tile((np.arange(nx) + 0.5) * dx, ny)
        yr = np.repeat((np.arange(ny) + 0.5) * dy, nx)
        if np.shape(xx) != (nx * ny,) or not (np.all(np.abs(xx - xr) <= 4 * EPS * lx) and np.all(np.abs(yy - yr) <= 4 * EPS * ly)):
            out.append(("centres-row-wise", ""))
        for cst in (1.0, -3.25):
            if not abs(m.average(np.full(nx * ny, cst)) - cst) <= 4 * EPS * abs(cst):
                out.append(("average-exact-for-constants", ""))
        # boundary faces recomputed from the row-wise numbering: i-faces j*(nx+1)+i, then j-faces ny*(nx+1)+j*nx+i
        want = {"left": [j * (nx + 1) for j in range(ny)], "right": [j * (nx + 1) + nx for j in range(ny)],
                "bottom": [ny * (nx + 1) + i for i in range(nx)], "top": [ny * (nx + 1) + ny * nx + i for i in range(nx)]}
        tags = list(m.list_of_bctags())
        if sorted(tags) != sorted(want):
            out.append(("boundary-tags", "%r" % tags))
        else:
            allf = []
            for t in tags:
                io = [int(x) for x in np.asarray(m.index_of_bc(t)).ravel()]
                allf += io
                if io != want[t]:
                    out.append(("boundary-face-indices/" + t, "%r expected %r" % (io, want[t])))
                outward = {"left": (-1.0, 0.0), "right": (1.0, 0.0), "bottom": (0.0, -1.0), "top": (0.0, 1.0)}[t]
                nrm = np.asarray(m.normal_of_bc(t), float)
                k_ = ny if t in ("left", "right") else nx
                if nrm.shape != (2, k_) or not np.all(nrm == np.array(outward)[:, None]):
                    out.append(("outward-unit-normal/" + t, "%r" % nrm.tolist()))
                ori = m.bcface_orientation(t)
                # faces are oriented along +x/+y: the domain is on the positive side of left/bottom faces
                if ori != ("inward" if t in ("left", "bottom") else "outward"):
                    out.append(("orientation/" + t, "%r" % ori))
            if len(set(allf)) != len(allf):
                out.append(("boundary-sets-disjoint", ""))
            if sorted(allf) != sorted(sum(want.values(), [])) or len(allf) != 2 * (nx + ny):
                out.append(("boundary-sets-cover-boundary", ""))
    del others
    tag = "C20/%s/with-other-meshes-alive/%s" if then else "C20/%s/%s"
    return [(tag % (k, rule), "%s %r%s: %s %s" % (k, {a: b for a, b in case.items() if a != "ctor"}, (" after also building %r" % (list(then),)) if then else "", rule, what))
            for rule, what in out]


def all_cases(tier):
    cases = []
    for n, L, x0 in itertools.product(NCELL, LENGTHS, X0S):
        cases.append({"ctor": "uni", "ncell": n, "length": L, "x0": x0})
    ratios = [0.5, 1.0, 2.0, 3.0, 10.0, 0.25, 0.1] + ([1.5, 0.01] if tier == "thorough" else [])
    props = [(1, 1), (0.5, 1), (2, 1), (1, 3), (1, 2)] + ([(3, 1), (1, 5)] if tier == "thorough" else [])
    for n, L, r, (a, b) in itertools.product(NCELL + ([24, 60] if tier == "thorough" else []), LENGTHS, ratios, props):
        cases.append({"ctor": "ref", "ncell": n, "length": L, "ratio": r, "a": a, "b": b})
    for n, L, x0, mo in itertools.product(NCELL, [1.0, 0.1, 37.5], [0.0, 0.3, 2.0], list(MORPHS)):
        cases.append({"ctor": "morph", "ncell": n, "length": L, "x0": x0, "morph": mo})
    for n, L, x0 in itertools.product(NCELL, [1.0, 3.0], [-4.0]):
        for mo in ("id", "sin", "affine"):
            cases.append({"ctor": "morph", "ncell": n, "length": L, "x0": x0, "morph": mo})
    # integer-typed arguments (python int, numpy integer) where floats are usual
    for n, L, x0 in itertools.product([1, 3, 7, 12], [1, 3, 40], [0, -4, 2]):
        cases.append({"ctor": "uni", "ncell": n, "length": L, "x0": x0})
        cases.append({"ctor": "uni", "ncell": int(np.int64(n)), "length": L, "x0": x0, "npint": True})
    for n, L, r, (a, b) in itertools.product([2, 4, 9, 12], [1, 3], [1, 2, 3], [(1, 1), (2, 1), (1, 2), (1, 3)]):
        cases.append({"ctor": "ref", "ncell": n, "length": L, "ratio": r, "a": a, "b": b})
    for nx, ny, (lx, ly) in itertools.product((1, 3, 4), (1, 2, 5), [(1, 1), (2, 3), (5, 1)]):
        cases.append({"ctor": "2d", "nx": nx, "ny": ny, "lx": lx, "ly": ly})
    # sizes straddling the 2^15 / 2^16 limits of narrow index types
    for nx, ny in ((128, 129), (182, 181), (1, 40000), (33000, 1)):
        cases.append({"ctor": "2d", "nx": nx, "ny": ny, "lx": 2.0, "ly": 0.75})
    for n in (32769, 65537):
        cases.append({"ctor": "uni", "ncell": n, "length": 10.0, "x0": -0.3})
        cases.append({"ctor": "ref", "ncell": n - 1, "length": 1.0, "ratio": 2.0, "a": 1, "b": 1})
    rng = range(1, 6) if tier == "quick" else range(1, 9)
    for nx, ny, (lx, ly) in itertools.product(rng, rng, [(1.0, 1.0), (2.0, 0.5), (0.1, 37.5)]):
        cases.append({"ctor": "2d", "nx": nx, "ny": ny, "lx": lx, "ly": ly})
    return cases


def shard(block):
    res = core.Res()
    for case in block:
        res.evals += 1
        if case.get("ncell", case.get("nx", 1) * case.get("ny", 1)) >= 2:
            res.nontrivial += 1
        res.census["ctor/" + case["ctor"]] += 1
        for s, w in eval_case(case):
            res.violation(s, w, case)
    # histories construct A, construct B1..B3, ask A: the next two cases of the block and one from the other half (other constructor family)
    nb = len(block)
    for i, case in enumerate(block):
        then = [block[(i + 1) % nb], block[(i + 2) % nb], block[(i + nb // 2) % nb]]
        res.evals += 1
        res.nontrivial += 1
        res.census["history/construct-others-then-ask"] += 1
        for s, w in eval_case(case, then):
            res.violation(s, w, dict(case, then=then))
    res.sample(block[len(block) // 2], cap=1)
    return res


def run(ctx):
    cases = all_cases(ctx.tier)
    nb = 16
    ctx.pmap("constructors", shard, [cases[i::nb] for i in range(nb)])


def replay(case):
    case = dict(case)
    then = case.pop("then", ())
    return eval_case(case, then)
