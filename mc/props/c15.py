"""C15 - the 2D Cartesian solver agrees with the 1D solver and with grid symmetries.

Shape B: (1) every 1D data assignment extended invariantly in the other direction:
rows (columns) of the real 2D rhs = real 1D rhs, transverse momentum untouched;
(2) every data assignment on grids {1,2,3}^2 (lx != ly) x every assignment of the six
boundary-condition names to the four sides: the real rhs of the transposed /
x-reflected / y-reflected problem is the transposed / reflected rhs.
"""
import itertools

import numpy as np

from .. import core, space

ID = "C15"
LEVEL = "exploration"
RULE = ("2D==1D: all assignments of 4 mild Euler letters to nx<=3 (thorough 4) cells, extended over ny in {1,2,3} rows (and the transposed arrangement), x "
        "{centered,hlle} x 6 reconstruction pairs x all (left,right) pairs of {per,sym,insub,insup,outsub,outsup} x {per,sym} on the other sides; "
        "symmetries: all 676 admissible assignments of the six names to four sides on grids with <=4 cells x all 2-letter data, 12 boundary sets on "
        "2x3, 3x2, 3x3 x all 3-letter (3x3: 2-letter) data, x {transpose, reflect-x, reflect-y} x 2 fluxes x 3 (thorough 6) reconstructions. "
        "non-trivial = data not invariant under the transformation")
ASSUMPTIONS = ["cell states between alphabet letters are not explored", "tolerance 64 eps x flux scale / min(dx,dy)",
               "'leaves the transverse momentum untouched' is read for zero transverse velocity, the only case where a y-invariant 2D flow is the 1D flow"]
EPS = np.finfo(float).eps
K = 64.0
G = 1.4
PAR = {"ptot": 3.0, "rttot": 1.5, "p": 0.9}
PAR_LOW = {"ptot": 0.9, "rttot": 1.5, "p": 1.4}      # total pressure below every interior pressure of the alphabet: blocked inlets (the max(0,.) clamps are active)
_PARS = {"std": PAR, "low": PAR_LOW}
NAMES = ["per", "sym", "insub", "insup", "outsub", "outsup"]
ALPHA = [(1.0, 0.0, 0.0, 1.0), (2.0, 0.5, -0.3, 1.0), (1.0, -0.4, 0.6, 2.0), (1.5, 1.4, 0.9, 1.5)]
ALPHA1D = [(1.0, 0.0, 1.0), (2.0, 0.5, 1.0), (1.0, -0.4, 2.0), (1.5, 1.4, 1.5)]


def bcd(name, angle=None, par="std"):
    if name in ("per", "sym"):
        return {"type": name}
    d = dict(_PARS[par], type=name)
    if angle is not None and name == "insup":
        d["angle"] = angle
    return d


def cons2d(P):
    return [P[0].copy(), np.array([P[0] * P[1], P[0] * P[2]]), P[3] / (G - 1) + 0.5 * P[0] * (P[1] ** 2 + P[2] ** 2)]


def scales2d(disc, msh):
    pL, pR = disc.pL, disc.pR
    with np.errstate(all="ignore"):
        out = []
        for p in (pL, pR):
            rho, V, pr = np.abs(np.asarray(p[0], float)), np.asarray(p[1], float), np.abs(np.asarray(p[2], float))
            vm = np.sqrt((V ** 2).sum(0))
            c = np.sqrt(G * pr / rho)
            out.append((rho, vm + c, rho * (c * c / (G - 1) + 0.5 * vm * vm)))
        rm = np.nanmax(np.maximum(out[0][0], out[1][0]))
        sm = np.nanmax(np.maximum(out[0][1], out[1][1]))
        rH = np.nanmax(np.maximum(out[0][2], out[1][2]))
    h = min(msh.dx(), msh.dy())
    return [rm * sm / h, rm * sm * sm / h, sm * rH / h]


def rhs2d(flux, rname, grid, bcs, q):
    nx, ny, lx, ly = grid
    model = space.euler.euler2d(gamma=G)
    msh = space.mesh2.mesh2d(nx, ny, lx, ly)
    disc = space.modeldisc.fvm2d(model, msh, space.recon(rname), bcs, numflux=flux)
    f = space.field.fdata(model, msh, [np.array(x, float).copy() for x in q])
    with np.errstate(all="ignore"):
        R = [np.asarray(r, float).copy() for r in disc.rhs(f)]
    return R, scales2d(disc, msh)


# ---------------------------------------------------------------------------
# (1) 2D == 1D
PAIRS = [("extrapol2d1", "extrapol1")] + [("extrapol2dk:%r" % k, "extrapolk:%r" % k) for k in (-1.0, 0.0, 1.0 / 3.0, 0.5, 1.0)]


def check_1d2d(flux, pair, nx, ny, lr, tb, idx, axis, res=None, par="std"):
    """axis 0: data vary along x (rows are copies), axis 1: along y"""
    r2, r1 = pair
    lx, ly = 2.0, 0.75
    P1 = np.array([ALPHA1D[i] for i in idx]).T                    # rho, u, p  (n = nx)
    n = len(idx)
    # 1D reference operator
    L1 = lx if axis == 0 else ly
    mesh1 = space.mesh1.unimesh(ncell=n, length=L1)
    model1 = space.euler.euler1d(gamma=G)
    disc1 = space.modeldisc.fvm(model1, mesh1, space.recon(r1), numflux=flux, bcL=bcd(lr[0], par=par), bcR=bcd(lr[1], par=par))
    q1 = [P1[0].copy(), P1[0] * P1[1], P1[2] / (G - 1) + 0.5 * P1[0] * P1[1] ** 2]
    with np.errstate(all="ignore"):
        R1 = [np.asarray(r, float).copy() for r in disc1.rhs(space.field.fdata(model1, mesh1, q1))]
    # 2D problem: n cells along 'axis', m copies across
    m = ny
    if axis == 0:
        grid = (n, m, lx, ly)
        rho = np.tile(P1[0], m)
        u, v = np.tile(P1[1], m), np.zeros(n * m)
        p = np.tile(P1[2], m)
        bcs = {"left": bcd(lr[0], par=par), "right": bcd(lr[1], par=par), "bottom": bcd(tb), "top": bcd(tb)}
    else:
        grid = (m, n, lx, ly)
        rho = np.repeat(P1[0], m)
        u, v = np.zeros(n * m), np.repeat(P1[1], m)
        p = np.repeat(P1[2], m)
        bcs = {"bottom": bcd(lr[0], par=par), "top": bcd(lr[1], par=par), "left": bcd(tb), "right": bcd(tb)}
    R2, S = rhs2d(flux, r2, grid, bcs, cons2d(np.array([rho, u, v, p])))
    out = []
    site = "C15/2d=1d/%s/%s/%s/%s-%s/%s%s" % ("x" if axis == 0 else "y", flux, "first-order" if r1 == "extrapol1" else "k-scheme", lr[0], lr[1], tb,
                                             "/blocked-inlet-parameters" if par == "low" else "")
    fin1 = all(np.all(np.isfinite(r)) for r in R1)
    fin2 = all(np.all(np.isfinite(r)) for r in R2)
    if not (fin1 and fin2):
        if fin1 != fin2:
            out.append((site + "/finite", "1D rhs %s, 2D rhs %s for data %r" % ("finite" if fin1 else "non-finite", "finite" if fin2 else "non-finite", idx)))
        elif res is not None:
            res.skipped += 1
        return out
    shape = (m, n) if axis == 0 else (n, m)
    comps = [("mass", R2[0], R1[0], 0), ("momentum-normal", R2[1][axis], R1[1], 1), ("energy", R2[2], R1[2], 2)]
    for name, r2d, r1d, q in comps:
        a = r2d.reshape(shape)
        want = np.tile(r1d, (m, 1)) if axis == 0 else np.tile(r1d[:, None], (1, m))
        err = np.abs(a - want).max() / (S[q] + 1e-300) / EPS
        if res is not None:
            res.evals += 1
            res.worst("2d-vs-1d/eps", err)
        if not err <= K:
            out.append((site + "/" + name, "%s %s/%s %d cells along %s x %d copies, bc %s-%s / %s, data %r: 2D %s residual %r, 1D %r (%.3g eps)" % (
                flux, r2, r1, n, "xy"[axis], m, lr[0], lr[1], tb, idx, name, a.tolist(), r1d.tolist(), err)))
    t = R2[1][1 - axis]
    err = np.abs(t).max() / (S[1] + 1e-300) / EPS
    if res is not None:
        res.worst("transverse-momentum/eps", err)
    if not err <= K:
        out.append((site + "/transverse-momentum", "%s %s data %r: transverse momentum residual %r should vanish" % (flux, r2, idx, t.tolist())))
    return out


def shard_1d2d_gamma(arg):
    """the same comparison for another ratio of specific heats (both models built with it), on the smaller sizes"""
    global G
    flux, pair, g = arg
    res = core.Res()
    old, G = G, g
    try:
        lrs = [("per", "per"), ("sym", "sym"), ("insub", "outsub"), ("outsub", "insub"), ("insup", "outsup")]
        for nx, ny in ((2, 2), (3, 1), (3, 2)):
            for lr in lrs:
                for tb in ("per", "sym"):
                    for axis in (0, 1):
                        for idx in itertools.product(range(3), repeat=nx):
                            if len(set(idx)) > 1:
                                res.nontrivial += 1
                            for s, w in check_1d2d(flux, pair, nx, ny, lr, tb, idx, axis, res):
                                res.violation(s.replace("C15/2d=1d/", "C15/2d=1d/gamma=%g/" % g), w + " [both models with gamma=%r]" % g,
                                              {"kind": "1d2d", "flux": flux, "pair": list(pair), "nx": nx, "ny": ny, "lr": list(lr), "tb": tb, "idx": list(idx), "axis": axis, "gamma": g})
    finally:
        G = old
    return res


def shard_1d2d(arg):
    flux, pair, tier = arg
    res = core.Res()
    lrs = [("per", "per")] + [(a, b) for a in NAMES[1:] for b in NAMES[1:]]
    for nx in ((1, 2, 3, 4, 5, 8) if tier == "thorough" else (1, 2, 3, 7)):
        nlet = 4 if nx <= 3 else 3
        for ny in ((1, 2, 3) if nx <= 4 else (2,)):
            for lr in lrs:
                for tb in ("per", "sym"):
                    for axis in (0, 1):
                        for idx in (itertools.product(range(nlet), repeat=nx) if nx <= 4 else space.pattern_assignments(nx, 3)):
                            if len(set(idx)) > 1:
                                res.nontrivial += 1
                            for s, w in check_1d2d(flux, pair, nx, ny, lr, tb, idx, axis, res):
                                res.violation(s, w, {"kind": "1d2d", "flux": flux, "pair": list(pair), "nx": nx, "ny": ny, "lr": list(lr), "tb": tb,
                                                     "idx": list(idx), "axis": axis})
                            if ny <= 2 and ("insub" in lr or "insup" in lr) and (tier == "thorough" or len(set(idx)) <= 2):
                                for s, w in check_1d2d(flux, pair, nx, ny, lr, tb, idx, axis, res, par="low"):
                                    res.violation(s, w, {"kind": "1d2d", "flux": flux, "pair": list(pair), "nx": nx, "ny": ny, "lr": list(lr), "tb": tb,
                                                         "idx": list(idx), "axis": axis, "par": "low"})
    res.sample({"flux": flux, "recon_2d": pair[0], "recon_1d": pair[1], "cells_along_x": 3, "rows": 2, "left_right": ["insub", "outsub"], "top_bottom": "sym",
                "data_letters": [0, 1, 2]}, cap=1)
    return res


# ---------------------------------------------------------------------------
# (2) grid symmetries
def t_cells(a, nx, ny, kind):
    """transform row-wise cell data (last axis)"""
    b = np.asarray(a).reshape(np.asarray(a).shape[:-1] + (ny, nx))
    if kind == "T":
        b = np.swapaxes(b, -1, -2)
    elif kind == "X":
        b = b[..., :, ::-1]
    else:
        b = b[..., ::-1, :]
    return np.ascontiguousarray(b).reshape(np.asarray(a).shape)


def t_fieldlike(q, nx, ny, kind):
    """scalar, vector, scalar lists (conservative data or residual)"""
    rho, m, E = q
    m = np.asarray(m)
    if kind == "T":
        mm = np.array([t_cells(m[1], nx, ny, kind), t_cells(m[0], nx, ny, kind)])
    elif kind == "X":
        mm = np.array([-t_cells(m[0], nx, ny, kind), t_cells(m[1], nx, ny, kind)])
    else:
        mm = np.array([t_cells(m[0], nx, ny, kind), -t_cells(m[1], nx, ny, kind)])
    return [t_cells(rho, nx, ny, kind), mm, t_cells(E, nx, ny, kind)]


def t_bcs(b, kind):
    def ang(d, f):
        d = dict(d)
        if "angle" in d:
            d["angle"] = f(d["angle"])
        return d
    if kind == "T":
        m = {"left": "bottom", "bottom": "left", "right": "top", "top": "right"}
        f = lambda a: 90.0 - a
    elif kind == "X":
        m = {"left": "right", "right": "left", "top": "top", "bottom": "bottom"}
        f = lambda a: 180.0 - a
    else:
        m = {"left": "left", "right": "right", "top": "bottom", "bottom": "top"}
        f = lambda a: -a
    return {m[t]: ang(d, f) for t, d in b.items()}


def check_sym(flux, rname, grid, names, idx, angle, res=None):
    nx, ny, lx, ly = grid
    bcs = {t: bcd(n, angle) for t, n in zip(("left", "right", "bottom", "top"), names)}
    P = np.array([ALPHA[i] for i in idx]).T
    q = cons2d(P)
    R, S = rhs2d(flux, rname, grid, bcs, q)
    out = []
    fin = all(np.all(np.isfinite(r)) for r in R)
    for kind in ("T", "X", "Y"):
        g2 = (ny, nx, ly, lx) if kind == "T" else grid
        R2, S2 = rhs2d(flux, rname, g2, t_bcs(bcs, kind), t_fieldlike(q, nx, ny, kind))
        want = t_fieldlike(R, nx, ny, kind)
        site = "C15/symmetry/%s/%s/%s/%s" % ({"T": "transpose", "X": "reflect-x", "Y": "reflect-y"}[kind], flux,
                                             "first-order" if rname == "extrapol2d1" else "k-scheme", "-".join(names))
        fin2 = all(np.all(np.isfinite(r)) for r in R2)
        if res is not None:
            res.evals += 1
        if not (fin and fin2):
            if fin != fin2:
                out.append((site + "/finite", "finite vs non-finite for data %r" % (idx,)))
            elif res is not None:
                res.skipped += 1
            continue
        for qi, name in enumerate(("mass", "momentum", "energy")):
            sc = max(S[qi], S2[qi]) + 1e-300
            err = np.abs(np.asarray(R2[qi]) - np.asarray(want[qi])).max() / sc / EPS
            if res is not None:
                res.worst("symmetry-%s/eps" % kind, err)
                res.census["symmetry-%s/%s" % (kind, "bitwise" if err == 0 else "round-off")] += 1
            if not err <= K:
                out.append((site + "/" + name, "%s %s grid %r bc (l,r,b,t)=%r data %r%s: rhs of the %s problem differs from the transformed rhs by %.3g eps" % (
                    flux, rname, grid, names, idx, " angle %g" % angle if angle is not None else "", {"T": "transposed", "X": "x-reflected", "Y": "y-reflected"}[kind], err)))
                break
    return out


def side_assignments():
    lrs = [("per", "per")] + [(a, b) for a in NAMES[1:] for b in NAMES[1:]]
    return [lr + tb for lr in lrs for tb in lrs]


SUBSET = [("per", "per", "per", "per"), ("sym", "sym", "sym", "sym"), ("per", "per", "sym", "sym"), ("sym", "sym", "per", "per"),
          ("insub", "outsub", "sym", "sym"), ("outsub", "insub", "per", "per"), ("sym", "sym", "insub", "outsub"), ("per", "per", "outsup", "insup"),
          ("insup", "outsup", "sym", "outsub"), ("insub", "sym", "outsub", "insub"), ("outsup", "insup", "insup", "outsup"), ("sym", "outsub", "insub", "sym")]


def shard_sym(arg):
    flux, rname, grid, mode = arg
    res = core.Res()
    nx, ny = grid[0], grid[1]
    nc = nx * ny
    if mode == "all-sides":
        assigns, nlet = side_assignments(), 2
    else:
        assigns, nlet = SUBSET, (3 if nc <= 6 else 2)
    for names in assigns:
        angles = [None] + ([30.0] if "insup" in names else [])
        for angle in angles:
            for idx in itertools.product(range(nlet), repeat=nc):
                ix = tuple(i + 1 for i in idx) if nlet == 2 else idx
                if len(set(ix)) > 1 or nc == 1:
                    res.nontrivial += 1
                for s, w in check_sym(flux, rname, grid, names, ix, angle, res):
                    res.violation(s, w, {"kind": "sym", "flux": flux, "recon": rname, "grid": list(grid), "names": list(names), "idx": list(ix), "angle": angle})
    res.sample({"flux": flux, "recon": rname, "grid": list(grid), "sides_lrbt": list(assigns[len(assigns) // 2]), "data_letters": [1] + [2] * (nc - 1),
                "transforms": ["transpose", "reflect-x", "reflect-y"]}, cap=1)
    return res


def check_sym_solve(flux, rname, grid, names, idx, res=None):
    """two explicit iterations at CFL 0.4 (the library's own time step) on a grid with non-square cells and on its transpose / reflections: the
    results (data and time) are the transformed results"""
    nx, ny, lx, ly = grid
    bcs = {t: bcd(n) for t, n in zip(("left", "right", "bottom", "top"), names)}
    P = np.array([ALPHA[i] for i in idx]).T
    q = cons2d(P)

    def run(g, b, qq):
        model = space.euler.euler2d(gamma=G)
        msh = space.mesh2.mesh2d(*g)
        disc = space.modeldisc.fvm2d(model, msh, space.recon(rname), b, numflux=flux)
        f = space.field.fdata(model, msh, [np.array(x, float).copy() for x in qq])
        with np.errstate(all="ignore"), core.time_limit(10.0):
            return space.integ.explicit(msh, disc).solve(f, 0.4, stop={"maxit": 2})[-1]
    a = run(grid, bcs, q)
    out = []
    if not all(np.all(np.isfinite(np.asarray(d))) for d in a.data):
        return out
    for kind in ("T", "X", "Y"):
        g2 = (ny, nx, ly, lx) if kind == "T" else grid
        b = run(g2, t_bcs(bcs, kind), t_fieldlike(q, nx, ny, kind))
        want = t_fieldlike(a.data, nx, ny, kind)
        if res is not None:
            res.evals += 1
            res.transitions += 2
        sc = max(np.abs(np.asarray(d)).max() for d in a.data)
        err = max(np.abs(np.asarray(x) - np.asarray(y)).max() for x, y in zip(b.data, want)) / sc
        terr = abs(b.time - a.time) / abs(a.time)
        if not (err <= 1e-12 and terr <= 1e-13):
            out.append(("C15/symmetry-solve/%s/%s/%s" % ({"T": "transpose", "X": "reflect-x", "Y": "reflect-y"}[kind], flux, "-".join(names)),
                        "%s %s grid %r boundaries %r data %r: after 2 explicit iterations at CFL 0.4 the %s problem is at t=%r with data off by %.3g (relative), the original at t=%r" % (
                            flux, rname, grid, names, idx, {"T": "transposed", "X": "x-reflected", "Y": "y-reflected"}[kind], b.time, err, a.time)))
    return out


def shard_sym_solve(arg):
    flux, rname, grid = arg
    res = core.Res()
    nx, ny = grid[0], grid[1]
    for names in (("per", "per", "per", "per"), ("sym", "sym", "per", "per"), ("sym", "sym", "sym", "sym"), ("insub", "outsub", "sym", "sym")):
        for idx in space.pattern_assignments(nx * ny, 3)[::2]:
            res.nontrivial += 1
            for s_, w in check_sym_solve(flux, rname, grid, names, idx, res):
                res.violation(s_, w, {"kind": "symsolve", "flux": flux, "recon": rname, "grid": list(grid), "names": list(names), "idx": list(idx)})
    return res


def shard_sym_big(arg):
    """larger grids (odd/even, elongated) with all cyclic translates of the base patterns"""
    flux, rname, grid = arg
    res = core.Res()
    nx, ny = grid[0], grid[1]
    for names in SUBSET:
        for idx in space.pattern_assignments(nx * ny, 3)[:: (1 if nx * ny <= 12 else 3)]:
            res.nontrivial += 1
            for s, w in check_sym(flux, rname, grid, names, idx, 30.0 if "insup" in names else None, res):
                res.violation(s.replace("C15/symmetry/", "C15/symmetry/larger-grid/"), w, {"kind": "sym", "flux": flux, "recon": rname, "grid": list(grid), "names": list(names),
                                                                                         "idx": list(idx), "angle": 30.0 if "insup" in names else None, "larger": True})
    return res


def shard_sym_multi(args):
    """several grids in one shard (used with object pooling: 2x3 and 3x2 have the same number of cells and faces)"""
    res = core.Res()
    for a in args:
        res.merge(shard_sym(a))
    return res


def run(ctx):
    th = ctx.thorough
    ctx.pmap("2d-equals-1d", shard_1d2d, [(fl, pair, ctx.tier) for fl in ("centered", "hlle") for pair in PAIRS])
    ctx.pmap("2d-equals-1d-other-gamma", shard_1d2d_gamma, [(fl, pair, g) for fl in ("centered", "hlle") for pair in (PAIRS if th else PAIRS[:3]) for g in ((5.0 / 3.0, 1.2) if th else (5.0 / 3.0,))])
    recs = space.X2_ALL if th else ["extrapol2d1", "extrapol2dk:-1.0", "extrapol2dk:0.3333333333333333"]
    cfg = []
    for flux in ("centered", "hlle"):
        for rname in recs:
            for nx, ny in ((1, 1), (1, 2), (2, 1), (2, 2), (1, 3), (3, 1)):
                cfg.append((flux, rname, (nx, ny, 2.0, 0.75), "all-sides"))
            for nx, ny in ((2, 3), (3, 2), (3, 3)) + (((4, 2), (2, 4)) if th else ()):
                cfg.append((flux, rname, (nx, ny, 2.0, 0.75), "subset"))
    cfg.sort(key=lambda c: -(c[2][0] * c[2][1]) - (100 if c[3] == "subset" else 0))
    ctx.pmap("grid-symmetries", shard_sym, cfg)
    ctx.pmap("grid-symmetries-of-a-solve", shard_sym_solve, [(fl, r, g) for fl in ("centered", "hlle") for r in ("extrapol2d1", "extrapol2dk:0.3333333333333333")
                                                             for g in ((3, 2, 2.0, 0.75), (2, 4, 1.0, 3.0))])
    ctx.pmap("grid-symmetries-size-ladder", shard_sym_big, [(flux, rname, (nx, ny, 2.0, 0.75)) for flux in ("centered", "hlle") for rname in (recs if th else recs[:2])
                                                            for nx, ny in ((5, 4), (4, 5), (7, 2), (2, 7), (6, 3))])
    multi = [[(flux, rname, (nx, ny, 2.0, 0.75), "subset") for nx, ny in (((2, 3), (3, 2), (1, 2), (2, 1), (2, 2)) if th else ((1, 2), (2, 1), (2, 2), (1, 3)))]
             for flux in ("centered", "hlle") for rname in (recs if th else recs[:2])]
    ctx.pmap("grid-symmetries-reused-objects", core.Pooled(shard_sym_multi), multi)


def replay(case):
    global G
    if case["kind"] == "symsolve":
        return check_sym_solve(case["flux"], case["recon"], tuple(case["grid"]), tuple(case["names"]), tuple(case["idx"]))
    if case["kind"] == "1d2d" and "gamma" in case:
        old, G = G, case["gamma"]
        try:
            v = check_1d2d(case["flux"], tuple(case["pair"]), case["nx"], case["ny"], tuple(case["lr"]), case["tb"], tuple(case["idx"]), case["axis"], par=case.get("par", "std"))
        finally:
            G = old
        return [(s_.replace("C15/2d=1d/", "C15/2d=1d/gamma=%g/" % case["gamma"]), w + " [both models with gamma=%r]" % case["gamma"]) for s_, w in v]
    if case["kind"] == "1d2d":
        return check_1d2d(case["flux"], tuple(case["pair"]), case["nx"], case["ny"], tuple(case["lr"]), case["tb"], tuple(case["idx"]), case["axis"], par=case.get("par", "std"))
    v = check_sym(case["flux"], case["recon"], tuple(case["grid"]), tuple(case["names"]), tuple(case["idx"]), case["angle"])
    return [(s_.replace("C15/symmetry/", "C15/symmetry/larger-grid/") if case.get("larger") else s_, w) for s_, w in v]
