"""C19 - source terms are added exactly once, to their own equation.

Shape B: every source list over {None, constant, x-dependent, state-dependent}^neq
x model (euler1d, nozzle with 4 section laws, shallow water) x meshes with n<=4
cells x reconstructions x fluxes x every data assignment of a 3-letter alphabet:
rhs(with) - rhs(without) = source_i(x,Q) on equation i; call counters; the nozzle's
geometric term against its definition.
"""
import itertools

import numpy as np

from .. import core, space

ID = "C19"
LEVEL = "exploration"
RULE = ("all source lists in {None,const,f(x),f(Q)}^neq (64 for Euler, 16 for shallow water) x {euler1d, nozzle x {const,parab,bump,lin}, shallowwater} x 5 meshes "
        "(n<=4, uniform/refined/width vectors) x 3 reconstructions x 2 fluxes x all assignments of 3 letters; non-trivial = at least one non-None entry")
ASSUMPTIONS = ["cell states between alphabet letters are not explored", "tolerance 16 eps x (|source| + |rhs|)"]
EPS = np.finfo(float).eps
K = 16.0


class Src:
    """source function with a call counter"""

    def __init__(self, kind, eq):
        self.kind, self.eq, self.calls = kind, eq, 0

    def value(self, x, q):
        if self.kind == "f":        # a constant given as a python float (broadcast over the cells)
            return 0.45 - 0.2 * self.eq
        if self.kind == "c":
            return 0.7 + 0.1 * self.eq + 0.0 * x
        if self.kind in ("x", "t"):
            return 0.3 * (self.eq + 1) + x * x
        if self.kind == "s":
            return q[1] + 0.0
        return 0.1 * q[0] - 0.05 * q[1] + 0.01 * self.eq * q[-1]

    def __call__(self, x, q):
        self.calls += 1
        if self.kind == "t":
            # a tabulated profile computed once and handed out again at every call (the same array object)
            if getattr(self, "table", None) is None:
                self.table = self.value(np.asarray(x, float), None)
                self.table0 = self.table.copy()
            return self.table
        if self.kind == "s":
            return q[1]             # an entry of the state itself, not a copy
        v = self.value(np.asarray(x, float), [np.asarray(d, float) for d in q])
        return float(v) if self.kind == "f" else v


def make(mkind, law, sources):
    if mkind == "euler1d":
        return space.euler.euler1d(source=sources)
    if mkind == "nozzle":
        return space.euler.nozzle(space.SECTION_LAWS[law], source=sources)
    return space.shallow.shallowwater1d(source=sources)


MESHES = [("uni", 1, 1.0, 0.0), ("uni", 3, 2.0, -1.0), ("ref", 4, 1.0, 2.0, 1, 1), ("w", (0.5, 2.0)), ("w", (2.0, 0.5, 1.0))]


def check(mkind, law, flux, rname, mspec, kinds, idx, res=None):
    neq = 2 if mkind == "shallowwater" else 3
    shared = Src("q", 0)       # letter "S": one and the same function object given for several equations
    srcs = [(shared if k == "S" else Src(k, i)) if k else None for i, k in enumerate(kinds)]
    mesh = space.mesh_spec(mspec)
    out = []
    site = "C19/%s%s" % (mkind, "/" + law if law else "")
    try:
        container = tuple(srcs) if (kinds.count("f") and mkind != "nozzle") else list(srcs)      # a tuple is as good a per-equation sequence as a list
        m_with = make(mkind, law, container if any(srcs) else None)
        m_wo = make(mkind, law, None)
        bc = {"type": "per"}
        d_with = space.modeldisc.fvm(m_with, mesh, space.recon(rname), numflux=flux, bcL=bc, bcR=bc)
        d_wo = space.modeldisc.fvm(m_wo, mesh, space.recon(rname), numflux=flux, bcL=bc, bcR=bc)
        al = space.cons_alphabet("shallowwater" if mkind == "shallowwater" else "euler1d", "mild")
        f = space.field_from_letters(m_with, mesh, al, idx)
        f2 = space.field_from_letters(m_wo, mesh, al, idx)
        second = any(k in ("t", "s") for k in kinds)
        with np.errstate(all="ignore"):
            Rw = [np.asarray(r, float).copy() for r in d_with.rhs(f)]
            if second:      # sources that hand out long-lived arrays: the operator is evaluated a second time and that evaluation is judged
                for s_ in srcs:
                    if s_:
                        s_.calls = 0
                Rw = [np.asarray(r, float).copy() for r in d_with.rhs(f)]
            R0 = [np.asarray(r, float).copy() for r in d_wo.rhs(f2)]
    except RecursionError as e:
        return [(site + "/exception", "%s %s sources %r: rhs raised RecursionError" % (mkind, law, kinds))]
    except Exception as e:
        return [(site + "/exception", "%s %s sources %r: rhs raised %r" % (mkind, law, kinds, e))]
    x = np.asarray(mesh.centers(), float)
    q = [np.asarray(d, float) for d in f.data]
    if not all(np.array_equal(a, b) for a, b in zip(f.data, f2.data)):
        out.append((site + "/field-modified", "%s %s sources %r data %r: evaluating the operator changed the field it was given" % (mkind, law, kinds, idx)))
        q = [np.asarray(d, float) for d in f2.data]
    for s_ in srcs:
        if s_ and s_.kind == "t" and getattr(s_, "table", None) is not None and not np.array_equal(s_.table, s_.table0):
            out.append((site + "/source-output-modified", "%s %s sources %r: the array returned by a source function was changed by the library (%r -> %r)" % (
                mkind, law, kinds, s_.table0.tolist(), s_.table.tolist())))
    for i in range(neq):
        want = (srcs[i].value(x, q) + np.zeros(mesh.ncell)) if srcs[i] else np.zeros(mesh.ncell)
        got = Rw[i] - R0[i]
        sc = np.abs(want) + np.abs(R0[i]) + np.abs(Rw[i]) + 1e-300
        err = (np.abs(got - want) / sc).max() / EPS
        if res is not None:
            res.evals += 1
            res.worst("source-difference/eps", err)
        if not err <= K:
            out.append((site + "/eq%d/%s" % (i, "own-source" if srcs[i] else "no-source-here"),
                        "%s %s %s %s mesh %r sources %r data %r: rhs(with)-rhs(without) on equation %d is %r, source_%d(x,Q) = %r" % (
                            mkind, law, flux, rname, mspec, kinds, idx, i, got.tolist(), i, want.tolist())))
        if srcs[i] and srcs[i].calls != (kinds.count("S") if kinds[i] == "S" else 1):
            out.append((site + "/called-once", "%s %s sources %r: source %d was called %d times during one rhs" % (mkind, law, kinds, i, srcs[i].calls)))
    return out


def check_geom(law, flux, rname, mspec, idx, res=None):
    """the built-in area-variation sources = -(1/A)(dA/dx) x (rho u, rho u^2, rho u H); zero for a constant section"""
    mesh = space.mesh_spec(mspec)
    A = space.SECTION_LAWS[law]
    noz = space.euler.nozzle(A)
    eul = space.euler.euler1d()
    bc = {"type": "per"}
    dn = space.modeldisc.fvm(noz, mesh, space.recon(rname), numflux=flux, bcL=bc, bcR=bc)
    de = space.modeldisc.fvm(eul, mesh, space.recon(rname), numflux=flux, bcL=bc, bcR=bc)
    al = space.cons_alphabet("euler1d", "mild")
    fn = space.field_from_letters(noz, mesh, al, idx)
    fe = space.field_from_letters(eul, mesh, al, idx)
    with np.errstate(all="ignore"):
        Rn = [np.asarray(r, float).copy() for r in dn.rhs(fn)]
        Re = [np.asarray(r, float).copy() for r in de.rhs(fe)]
    xf, xc = np.asarray(mesh.xf, float), np.asarray(mesh.xc, float)
    geom = (A(xf[1:]) - A(xf[:-1])) / (xf[1:] - xf[:-1]) / A(xc)
    rho, m, E = [np.asarray(d, float) for d in fn.data]
    u = m / rho
    p = 0.4 * (E - 0.5 * rho * u * u)
    H = (E + p) / rho
    want = [-geom * rho * u, -geom * rho * u * u, -geom * rho * u * H]
    out = []
    for i in range(3):
        got = Rn[i] - Re[i]
        sc = np.abs(want[i]) + np.abs(Re[i]) + np.abs(geom) * (rho * (np.abs(u) + 1) * (np.abs(H) + 1)) + 1e-300
        err = (np.abs(got - want[i]) / sc).max() / EPS
        if res is not None:
            res.evals += 1
            res.worst("geometric-term/eps", err)
        if not err <= 4 * K:
            out.append(("C19/nozzle/%s/geometric-term/eq%d" % (law, i), "nozzle %s %s %s mesh %r data %r: built-in source on equation %d is %r, definition gives %r" % (
                law, flux, rname, mspec, idx, i, got.tolist(), want[i].tolist())))
        if law == "const" and not np.all(got == 0):
            out.append(("C19/nozzle/const/zero-geometric-source", "constant section: built-in source on equation %d is %r" % (i, got.tolist())))
    return out


def check_shared_model(law, flux, rname, res=None):
    """history on ONE nozzle model object: discretise it on mesh A, then on mesh B (same number of cells, other geometry), evaluate the newest
    operator, then the older one: both carry the area-variation sources of their own mesh"""
    A = space.SECTION_LAWS[law]
    noz = space.euler.nozzle(A)
    eul = space.euler.euler1d()
    al = space.cons_alphabet("euler1d", "mild")
    seq = [("uni", 4, 1.0, 0.0), ("ref", 4, 1.0, 2.0, 1, 1), ("uni", 4, 3.0, -1.0), ("w", (2.0, 0.5, 1.0, 1.0))]
    discs = []
    out = []

    def judge(mesh, dn, tag):
        de = space.modeldisc.fvm(eul, mesh, space.recon(rname), numflux=flux)
        idx = (0, 2, 1, 3)
        fn, fe = space.field_from_letters(noz, mesh, al, idx), space.field_from_letters(eul, mesh, al, idx)
        with np.errstate(all="ignore"):
            Rn = [np.asarray(r, float).copy() for r in dn.rhs(fn)]
            Re = [np.asarray(r, float).copy() for r in de.rhs(fe)]
        xf, xc = np.asarray(mesh.xf, float), np.asarray(mesh.xc, float)
        geom = (A(xf[1:]) - A(xf[:-1])) / (xf[1:] - xf[:-1]) / A(xc)
        rho, m, E = [np.asarray(d, float) for d in fn.data]
        u = m / rho
        p = 0.4 * (E - 0.5 * rho * u * u)
        H = (E + p) / rho
        want = [-geom * rho * u, -geom * rho * u * u, -geom * rho * u * H]
        for i in range(3):
            got = Rn[i] - Re[i]
            sc = np.abs(want[i]) + np.abs(Re[i]) + np.abs(geom) * (rho * (np.abs(u) + 1) * (np.abs(H) + 1)) + 1e-300
            err = (np.abs(got - want[i]) / sc).max() / EPS
            if res is not None:
                res.evals += 1
            if not err <= 4 * K:
                return [("C19/nozzle/shared-model/%s" % tag, "nozzle %s %s %s: one model object discretised on several meshes of 4 cells; on mesh faces %r the built-in source on equation %d is %r, "
                         "definition gives %r (%s)" % (law, flux, rname, xf.tolist(), i, got.tolist(), want[i].tolist(), tag))]
        return []
    for k, mspec in enumerate(seq):
        mesh = space.mesh_spec(mspec)
        dn = space.modeldisc.fvm(noz, mesh, space.recon(rname), numflux=flux)
        discs.append((mesh, dn))
        out += judge(mesh, dn, "newest-discretisation")
        if out:
            return out
    # the older discretisations, now that newer ones exist on the same model object
    for mesh, dn in discs[:-1]:
        v = judge(mesh, dn, "older-discretisation-uses-the-geometry-of-the-newest-mesh")
        if v:
            return v
    return out


def shard(arg):
    mkind, law, flux, rname = arg
    res = core.Res()
    neq = 2 if mkind == "shallowwater" else 3
    extra = [k for k in itertools.product((None, "f", "q"), repeat=neq) if "f" in k] + [k for k in itertools.product((None, "S", "x"), repeat=neq) if k.count("S") >= 2]
    extra += [k for k in itertools.product((None, "t", "s"), repeat=neq) if any(k)]
    for kinds in list(itertools.product((None, "c", "x", "q"), repeat=neq)) + extra:
        for mspec in MESHES:
            n = mspec[1] if mspec[0] in ("uni", "ref") else len(mspec[1])
            for idx in itertools.product(range(3), repeat=n):
                if any(kinds):
                    res.nontrivial += 1
                for s, w in check(mkind, law, flux, rname, mspec, kinds, idx, res):
                    res.violation(s, w, {"kind": "src", "model": mkind, "law": law, "flux": flux, "recon": rname, "mesh": mspec, "kinds": list(kinds), "idx": list(idx)})
    if mkind == "nozzle" and law != "const":
        res.nontrivial += 1
        for s, w in check_shared_model(law, flux, rname, res):
            res.violation(s, w, {"kind": "shared", "law": law, "flux": flux, "recon": rname})
    if mkind == "nozzle":
        for mspec in MESHES:
            n = mspec[1] if mspec[0] in ("uni", "ref") else len(mspec[1])
            for idx in itertools.product(range(3), repeat=n):
                res.nontrivial += 1
                for s, w in check_geom(law, flux, rname, mspec, idx, res):
                    res.violation(s, w, {"kind": "geom", "law": law, "flux": flux, "recon": rname, "mesh": mspec, "idx": list(idx)})
    res.sample({"model": mkind, "section_law": law, "flux": flux, "recon": rname, "source_list": ["f(x)", None, "f(Q)"][:neq], "mesh": ["w", [2.0, 0.5, 1.0]],
                "data_letters": [0, 1, 2]}, cap=1)
    return res


def run(ctx):
    cfg = []
    recs = ["extrapol1", "extrapol3", "muscl:vanleer"]
    for mkind, laws, fluxes in (("euler1d", [None], ("hllc", "centered")), ("nozzle", ["const", "parab", "bump", "lin"], ("hllc", "hlle")),
                                ("shallowwater", [None], ("hll", "rusanov"))):
        for law in laws:
            for flux in fluxes:
                for r in recs:
                    cfg.append((mkind, law, flux, r))
    ctx.pmap("source-lists", shard, cfg)


def _tup(x):
    return tuple(_tup(y) for y in x) if isinstance(x, list) else x


def replay(case):
    if case["kind"] == "shared":
        return check_shared_model(case["law"], case["flux"], case["recon"])
    if case["kind"] == "geom":
        return check_geom(case["law"], case["flux"], case["recon"], _tup(case["mesh"]), tuple(case["idx"]))
    return check(case["model"], case["law"], case["flux"], case["recon"], _tup(case["mesh"]), tuple(case["kinds"]), tuple(case["idx"]))
