"""C09 - limited schemes obey the maximum principle and are TVD for scalar laws.

Shape C: all stencil windows over an alphabet (states x cell widths for the
first-order scheme) packed into one periodic mesh, one real forward-Euler step at
the window's CFL step: the new centre value stays inside the window's range
(equivalent, over the alphabet, to the global maximum principle on meshes of any
size: a violating window padded with its edge values is a violating mesh).
Shape A: BFS depth 3 over real step() calls from every data assignment on small
periodic meshes: range and total variation after every transition.
"""
import itertools

import numpy as np

from .. import core, pack, space

ID = "C09"
LEVEL = "model_checking"
RULE = ("windows: all 3-windows over (5 states x 3 widths) for first-order upwind convection (a=+-) at CFL {1,1/2}, all 5-windows over the state "
        "alphabet for muscl x 4 limiters, convection a=+- and Burgers, CFL {1/2,1/4}; BFS: every data assignment of the alphabet on periodic "
        "meshes n in 3..5 (thorough 6; plus 4 other placements x0, dx of the same meshes) x {extrapol1, muscl x 4} x {explicit, rk2_heun, rk3ssp} x CFL set, depth 3 (states after a step are new, "
        "non-alphabet states). non-trivial = non-constant window/data")
ASSUMPTIONS = ["cell values between alphabet letters are not explored (the BFS does reach non-alphabet values after the first step)",
               "round-off tolerance 16 eps x max|u|", "Burgers data identically zero is excluded (no finite time step, see known finding under C03)"]
EPS = np.finfo(float).eps
K = 16.0
SSP = ["explicit", "rk2_heun", "rk3ssp"]


def model_of(mname):
    return space.make_model(("convection", 1.0) if mname == "convection+" else ("convection", -1.5) if mname == "convection-" else ("burgers",))


# ---------------------------------------------------------------------------
def check_windows(mname, rname, cfl, letters, wl, lo, hi, res=None):
    """letters: state values; wl: width letters (len 1 => uniform). windows lo..hi of the product alphabet (state,width)"""
    vals = np.asarray(letters, float)
    widths = np.asarray(wl, float)
    k = vals.size * widths.size
    w = space.stencil_width(rname)
    W = pack.windows(k, w, lo, hi)
    n = W.shape[0]
    u = vals[W % vals.size].ravel()
    dxs = widths[W // vals.size].ravel()
    mesh = space.mesh_from_widths(dxs, 0.0)
    model = model_of(mname)
    disc = space.modeldisc.fvm(model, mesh, space.recon(rname))
    f = space.field.fdata(model, mesh, [u.copy()])
    with np.errstate(all="ignore"):
        dtc = np.asarray(disc.calc_timestep(f, cfl), float)
    dt = pack.window_min(dtc, w)
    ok = np.isfinite(dt)
    dts = np.where(ok, dt, 0.0)
    solver = space.integ.explicit(mesh, disc)
    with np.errstate(all="ignore"):
        solver.step(f, dts)
    c = pack.centres(n, w)
    new = f.data[0][c]
    win = u.reshape(n, w)
    lo_, hi_ = win.min(axis=1), win.max(axis=1)
    sc = np.abs(win).max(axis=1)
    okc = ok[c]
    over = np.maximum(new - hi_, lo_ - new)
    bad = okc & ~(over <= K * EPS * sc)
    out = []
    if res is not None:
        res.evals += n
        res.nontrivial += int(np.sum(lo_ != hi_))
        res.skipped += int(np.sum(~okc))
        res.census["windows/centre-is-local-extremum"] += int(np.sum((win[:, w // 2] == hi_) | (win[:, w // 2] == lo_)))
        res.census["windows/new-value-on-the-bound"] += int(np.sum(okc & ((new == hi_) | (new == lo_)) & (lo_ != hi_)))
        res.census["windows/zero-slope-next-to-nonzero"] += int(np.sum((win[:, w // 2] == win[:, w // 2 - 1]) != (win[:, w // 2] == win[:, w // 2 + 1])))
        res.worst("window-overshoot/eps", float(np.max(np.where(okc, over / np.maximum(sc, 1e-300), 0.0))) / EPS if n else 0.0)
    for i in np.flatnonzero(bad)[:20]:
        out.append(("C09/window/%s/%s/cfl=%g" % (mname, rname.replace(":", "-"), cfl),
                    "%s %s CFL %g window %r widths %r: centre %r -> %r leaves [%r, %r]" % (mname, rname, cfl, win[i].tolist(), dxs.reshape(n, w)[i].tolist(),
                                                                                          win[i, w // 2], new[i], lo_[i], hi_[i]), int(lo + i)))
    return out


def shard_windows(arg):
    mname, rname, cfl, letters, wl, lo, hi = arg
    res = core.Res()
    for s, wh, j in check_windows(mname, rname, cfl, letters, wl, lo, hi, res):
        res.violation(s, wh, {"kind": "window", "model": mname, "recon": rname, "cfl": cfl, "letters": list(letters), "widths": list(wl), "index": j})
    res.sample({"model": mname, "recon": rname, "cfl": cfl, "window_number": lo, "letters": list(letters), "width_letters": list(wl)}, cap=1)
    return res


# ---------------------------------------------------------------------------
def tv(u):
    return float(np.sum(np.abs(u - np.roll(u, 1))))


def bfs(mname, rname, iname, cfl, mspec, idx, letters, depth, res=None):
    model = model_of(mname)
    mesh = space.mesh_spec(mspec)
    disc = space.modeldisc.fvm(model, mesh, space.recon(rname))
    cls = space.integrators()[iname]
    u0 = np.array([letters[i] for i in idx], float)
    f = space.field.fdata(model, mesh, [u0.copy()])
    solver = cls(mesh, disc)
    out = []
    site = "C09/bfs/%s/%s/%s/cfl=%g" % (mname, rname.replace(":", "-"), iname, cfl)
    for d in range(depth):
        prev = f.data[0].copy()
        with np.errstate(all="ignore"):
            dt = float(np.min(disc.calc_timestep(f, cfl)))
        if not np.isfinite(dt):
            if res is not None:
                res.skipped += 1
            break
        with np.errstate(all="ignore"):
            solver.step(f, dt)
        new = f.data[0]
        sc = float(np.abs(prev).max())
        if res is not None:
            res.transitions += 1
            res.evals += 1
            res.states.add(hash(new.tobytes()))
        over = max(float(new.max() - prev.max()), float(prev.min() - new.min()))
        dtv = tv(new) - tv(prev)
        if res is not None:
            res.worst("bfs-range/eps", over / max(sc, 1e-300) / EPS)
            res.worst("bfs-tv/eps", dtv / max(sc, 1e-300) / EPS / len(idx))
        if not np.all(np.isfinite(new)) or not over <= K * EPS * sc:
            out.append((site + "/range", "%s %s %s CFL %g mesh %r data %r step %d: range [%r,%r] -> [%r,%r]" % (
                mname, rname, iname, cfl, mspec, u0.tolist(), d + 1, prev.min(), prev.max(), new.min(), new.max())))
            break
        if not dtv <= K * EPS * sc * len(idx):
            out.append((site + "/tvd", "%s %s %s CFL %g mesh %r data %r step %d: total variation %r -> %r" % (
                mname, rname, iname, cfl, mspec, u0.tolist(), d + 1, tv(prev), tv(new))))
            break
    return out


def drivers(mname, rname, iname, cfl, mspec, idx, letters, res=None):
    """the library's drivers instead of hand-made steps: the states saved by solve_legacy are chained by whole CFL steps (the last one before a
    save time shortened), so each stays in the range of the one before and does not gain variation; the states returned by solve (snapshots
    are side steps off the trajectory) stay in the range of the initial data.  Save times off the step grid (2.4 initial steps apart)."""
    model = model_of(mname)
    mesh = space.mesh_spec(mspec)
    cls = space.integrators()[iname]
    u0 = np.array([letters[i] for i in idx], float)
    out = []
    sc = float(np.abs(u0).max())
    n = len(idx)
    for entry in ("solve_legacy", "solve"):
        disc = space.modeldisc.fvm(model, mesh, space.recon(rname))
        f = space.field.fdata(model, mesh, [u0.copy()])
        with np.errstate(all="ignore"):
            dt0 = float(np.min(disc.calc_timestep(f, cfl)))
        if not np.isfinite(dt0):
            if res is not None:
                res.skipped += 1
            return out
        ts = [2.4 * dt0 * j for j in (1, 2, 3)]
        try:
            with np.errstate(all="ignore"), core.time_limit(20.0):
                got = list(cls(mesh, disc).solve_legacy(f, cfl, ts)) if entry == "solve_legacy" else list(cls(mesh, disc).solve(f, cfl, ts).solutions)
        except core.CallTimeout:
            out.append(("C09/driver/%s/%s/%s/%s/non-termination" % (entry, mname, rname.replace(":", "-"), iname), "%s did not return for data %r" % (entry, u0.tolist())))
            continue
        if res is not None:
            res.transitions += 1
            res.evals += 1
        prev = u0
        for j, g in enumerate(got):
            new = np.asarray(g.data[0], float)
            over = max(float(new.max() - prev.max()), float(prev.min() - new.min()))
            dtv = tv(new) - tv(prev)
            site = "C09/driver/%s/%s/%s/%s/cfl=%g" % (entry, mname, rname.replace(":", "-"), iname, cfl)
            if not np.all(np.isfinite(new)) or not over <= K * EPS * sc:
                out.append((site + "/range", "%s %s %s CFL %g mesh %r data %r: state %d returned by %s has range [%r,%r], the %s [%r,%r]" % (
                    mname, rname, iname, cfl, mspec, u0.tolist(), j, entry, new.min(), new.max(), "saved state before it" if entry == "solve_legacy" else "initial data", prev.min(), prev.max())))
                break
            if not dtv <= K * EPS * sc * n:
                out.append((site + "/tvd", "%s %s %s CFL %g mesh %r data %r: state %d returned by %s has total variation %r > %r" % (
                    mname, rname, iname, cfl, mspec, u0.tolist(), j, entry, tv(new), tv(prev))))
                break
            if entry == "solve_legacy":
                prev = new
    return out


def shard_drivers(arg):
    mname, rname, iname, cfl, mspec, letters = arg
    res = core.Res()
    n = mspec[1] if mspec[0] == "uni" else len(mspec[1])
    for idx in itertools.product(range(len(letters)), repeat=n):
        if len(set(idx)) == 1 or (mname == "burgers" and all(letters[i] == 0 for i in idx)):
            continue
        res.nontrivial += 1
        res.traces += 1
        for s, w in drivers(mname, rname, iname, cfl, mspec, idx, letters, res):
            res.violation(s, w, {"kind": "drv", "model": mname, "recon": rname, "integrator": iname, "cfl": cfl, "mesh": mspec, "idx": list(idx), "letters": list(letters)})
    return res


def shard_bfs(arg):
    mname, rname, iname, cfl, mspec, letters, depth = arg
    res = core.Res()
    n = mspec[1] if mspec[0] == "uni" else len(mspec[1])
    for idx in itertools.product(range(len(letters)), repeat=n):
        if len(set(idx)) == 1:
            continue
        if mname == "burgers" and all(letters[i] == 0 for i in idx):
            continue
        res.nontrivial += 1
        res.traces += 1
        for s, w in bfs(mname, rname, iname, cfl, mspec, idx, letters, depth, res):
            res.violation(s, w, {"kind": "bfs", "model": mname, "recon": rname, "integrator": iname, "cfl": cfl, "mesh": mspec, "idx": list(idx),
                                 "letters": list(letters), "depth": depth})
    res.sample({"model": mname, "recon": rname, "integrator": iname, "cfl": cfl, "mesh": mspec, "data": [letters[i] for i in ([1, 1, 0] + [2] * n)[:n]],
                "ops": ["step"] * depth}, cap=1)
    return res


def shard_bfs_multi(args):
    """several meshes with the same number of cells and different cell sizes / placements in one shard (used with object pooling)"""
    res = core.Res()
    for a in args:
        res.merge(shard_bfs(a))
    return res


def run(ctx):
    th = ctx.thorough
    S = space.S_THORO if th else space.S_QUICK
    cfg = []
    # first order on any mesh: (state, width) letters, 3-windows
    for mname in ("convection+", "convection-"):
        for cfl in (1.0, 0.5) + ((0.9,) if th else ()):
            k = len(S) * 3
            cfg.append((mname, "extrapol1", cfl, S, (0.5, 1.0, 2.0), 0, k ** 3))
            # the same width letters at a scale of 1e-9, and cells equal to within a few 1e-6
            cfg.append((mname, "extrapol1", cfl, S, (0.5e-9, 1e-9, 2e-9), 0, k ** 3))
            cfg.append((mname, "extrapol1", cfl, S, (1.0, 1.000001, 0.999998), 0, k ** 3))
    # muscl: uniform mesh, 5-windows
    for mname in ("convection+", "convection-", "burgers"):
        for lim in space.LIMITERS:
            for cfl in (0.5, 0.25):
                k = len(S)
                tot = k ** 5
                nchunk = 4 if mname == "burgers" else 1
                for c in range(nchunk):
                    cfg.append((mname, "muscl:" + lim, cfl, S, (1.0,), tot * c // nchunk, tot * (c + 1) // nchunk))
        # the same letters at an amplitude of 1e-12 (and 1e+9): gradients far below / above any absolute constant of a limiter
        for lim in space.LIMITERS:
            for amp in (1e-12, 1e9):
                Sa = [amp * x for x in space.S_QUICK]
                cfg.append((mname, "muscl:" + lim, 0.5, Sa, (1.0,), 0, len(Sa) ** 5))
        for cfl in (1.0, 0.5):
            if mname == "burgers":
                cfg.append((mname, "extrapol1", cfl, S, (1.0,), 0, len(S) ** 3))
    ctx.pmap("packed-windows", shard_windows, cfg)
    cfg2 = []
    recs = ["extrapol1"] + space.X1_MUSCL
    for mname in ("convection+", "convection-", "burgers"):
        for rname in recs:
            for iname in SSP:
                cfls = (0.5, 0.25) + ((1.0,) if rname == "extrapol1" and iname == "explicit" else ())
                for cfl in cfls:
                    for n in ((3, 4, 5, 6) if th else (3, 4, 5)):
                        cfg2.append((mname, rname, iname, cfl, ("uni", n, float(n), 0.0), S if n <= 5 else space.S_QUICK, 3))
                    # the same meshes placed elsewhere (first cell centred on 0, origin inside the second cell, far from 0, another cell size):
                    # the periodic seam must not depend on where the mesh sits
                    if iname == "explicit" or th:
                        for mspec in (("uni", 4, 4.0, -0.5), ("uni", 3, 3.0, -1.5), ("uni", 4, 0.4, -0.05), ("uni", 5, 5.0, 7.25)):
                            cfg2.append((mname, rname, iname, cfl, mspec, space.S_QUICK if mspec[1] == 5 else S, 3))
                if rname == "extrapol1" and mname != "burgers":
                    for wv in space.width_vectors(3) + (space.width_vectors(4)[::3] if th else space.width_vectors(4)[::9]) + space.ODD_SCALE_WIDTHS + [(0.5e-9, 2e-9, 1e-9)]:
                        cfg2.append((mname, rname, iname, 1.0 if iname == "explicit" else 0.5, ("w", wv), space.S_QUICK, 3))
    cfg2.sort(key=lambda c: -(len(c[5]) ** (c[4][1] if c[4][0] == "uni" else len(c[4][1]))))
    ctx.pmap("bfs-range-tvd", shard_bfs, cfg2)
    cfg3 = []
    for mname in ("convection+", "convection-", "burgers"):
        for rname in recs:
            for iname in (SSP if th else ["explicit", "rk3ssp"]):
                cfg3.append((mname, rname, iname, 1.0 if (rname == "extrapol1" and iname == "explicit") else 0.5, ("uni", 4, 4.0, 0.0), space.S_QUICK))
    ctx.pmap("drivers-solve-and-solve_legacy", shard_drivers, cfg3)
    multi = []
    for mname in ("convection+", "convection-", "burgers"):
        for rname in recs:
            for iname in (SSP if th else ["explicit", "rk3ssp"]):
                multi.append([(mname, rname, iname, 0.5, mspec, space.S_QUICK, 2) for mspec in (("uni", 4, 4.0, 0.0), ("uni", 4, 0.4, -0.05), ("uni", 4, 16.0, 3.0), ("uni", 4, 1.0, 0.0))])
    ctx.pmap("bfs-reused-objects", core.Pooled(shard_bfs_multi), multi)


def _tup(x):
    return tuple(_tup(y) for y in x) if isinstance(x, list) else x


def replay(case):
    if case["kind"] == "drv":
        return drivers(case["model"], case["recon"], case["integrator"], case["cfl"], _tup(case["mesh"]), tuple(case["idx"]), case["letters"])
    if case["kind"] == "window":
        j = case["index"]
        v = check_windows(case["model"], case["recon"], case["cfl"], case["letters"], case["widths"], j, j + 1)
        # a single window packed alone is periodic with itself: pad with two neighbours so that the centre sees exactly the same stencil
        if not v:
            k = len(case["letters"]) * len(case["widths"])
            w = space.stencil_width(case["recon"])
            lo = max(0, j - 1)
            hi = min(k ** w, j + 2)
            v = [x for x in check_windows(case["model"], case["recon"], case["cfl"], case["letters"], case["widths"], lo, hi) if x[2] == j]
        return [(s, wh) for s, wh, _ in v]
    return bfs(case["model"], case["recon"], case["integrator"], case["cfl"], _tup(case["mesh"]), tuple(case["idx"]), case["letters"], case["depth"])
