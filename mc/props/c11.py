"""C11 - reconstructions exact for linear data; linear schemes match the kappa stencil.

Shape B: every width vector over {1/2,1,2}^n (n<=5, thorough 6) x constant/linear
profiles x all reconstructions (face states of the real discretisation); the
operator matrix read off the real rhs on all unit impulses for every mesh size
n in 1..8, both signs, every unlimited scheme, against the circulant kappa stencil;
in 2D the face states of unit impulses on all periodic grids (nx,ny) in {1..4}^2.
"""
import itertools

import numpy as np

from .. import core, space

ID = "C11"
LEVEL = "exploration"
RULE = ("profiles (a,b) in {0,2,5}x{0,1,-3} on every width vector of {1/2,1,2}^n, n<=5 (thorough 6) x 16 reconstructions; extrapol1 on every data "
        "assignment; operator matrix from all unit impulses for n in 1..8 x a in {1,-1.5} x 11 unlimited schemes (+ linearity on all pairs of impulses); "
        "2D: unit impulses at every cell of every periodic grid (nx,ny) in {1..4}^2 x 6 reconstructions. non-trivial = non-constant profile / n>=3")
ASSUMPTIONS = ["linear exactness is asserted for faces whose stencil does not touch a non-periodic boundary", "tolerance 32 eps x max|value| (vanalbada/vanleer: + the documented 1e-20 regularisation)"]
EPS = np.finfo(float).eps
K = 32.0


def check_profile(rname, wv, a, b, res=None, num=None):
    mesh = space.mesh_from_widths(wv, -1.0)
    n = len(wv)
    model = space.convection.model(1.0)
    out = []
    u = a + b * mesh.xc
    bcs = ({"type": "per"}, {"type": "per"}) if b == 0 else ({"type": "dirichlet", "prim": [np.float64(a)]}, {"type": "dirichlet", "prim": [np.float64(a)]})
    disc = space.modeldisc.fvm(model, mesh, num if num is not None else space.recon(rname), bcL=bcs[0], bcR=bcs[1])
    with np.errstate(all="ignore"):
        disc.rhs(space.field.fdata(model, mesh, [u.copy()]))
    pL, pR = np.asarray(disc.pL[0], float), np.asarray(disc.pR[0], float)
    exact = a + b * mesh.xf
    sc = max(abs(a) + abs(b) * np.abs(mesh.xf).max(), 1e-300)
    # regularised limiters: L(s,s) = s / (1 + 1e-20/(2 s^2)); the face value is off by (dx/2) x 1e-20/(2|s|)
    tol = K * EPS * sc + (1e-19 * max(1.0, float(np.max(mesh.vol()))) / abs(b) if b else 0.0)
    site = "C11/%s/%s" % (rname.replace(":", "-"), "constant" if b == 0 else "linear")
    if b == 0:
        fl = range(0, n + 1)
        fr = range(0, n + 1)
    elif rname == "extrapol1":
        fl, fr = [], []
    else:
        fl = range(2, n)          # left state comes from cell i-1, which needs interior faces on both sides
        fr = range(1, n - 1)      # right state comes from cell i
    for i in fl:
        e = abs(pL[i] - exact[i])
        if res is not None:
            res.evals += 1
            res.worst("face-exactness/eps", e / sc / EPS)
        if not e <= tol:
            out.append((site + "/left-state", "%s widths %r profile %g+%g x: left state at face %d (x=%r) is %r, exact %r" % (rname, wv, a, b, i, mesh.xf[i], pL[i], exact[i])))
            break
    for i in fr:
        e = abs(pR[i] - exact[i])
        if res is not None:
            res.evals += 1
            res.worst("face-exactness/eps", e / sc / EPS)
        if not e <= tol:
            out.append((site + "/right-state", "%s widths %r profile %g+%g x: right state at face %d (x=%r) is %r, exact %r" % (rname, wv, a, b, i, mesh.xf[i], pR[i], exact[i])))
            break
    return out


def check_seam(rname, wv, a, b, res=None, num=None):
    """the periodic seam is not a boundary: data that are linear across it (in the unwrapped coordinate) are reproduced exactly at the seam face"""
    mesh = space.mesh_from_widths(wv, -1.0)
    n = len(wv)
    L = float(mesh.xf[-1] - mesh.xf[0])
    model = space.convection.model(1.0)
    disc = space.modeldisc.fvm(model, mesh, num if num is not None else space.recon(rname))
    out = []
    exact = a + b * mesh.xf[0]
    sc = abs(a) + abs(b) * (np.abs(mesh.xf).max() + L)
    tol = K * EPS * sc + 1e-19 * max(1.0, float(np.max(mesh.vol()))) / abs(b)
    for side in ("right-state", "left-state"):
        u = np.full(n, a)
        if side == "right-state":      # from cell 0: needs cells n-1, 0, 1
            cells = [(n - 1, -L), (0, 0.0), (1, 0.0)]
        else:                          # from cell n-1: needs cells n-2, n-1, 0
            cells = [(n - 2, -L), (n - 1, -L), (0, 0.0)]
        for c, off in cells:
            u[c] = a + b * (mesh.xc[c] + off)
        with np.errstate(all="ignore"):
            disc.rhs(space.field.fdata(model, mesh, [u.copy()]))
        got = float(disc.pR[0][0]) if side == "right-state" else float(disc.pL[0][n])
        twin = float(disc.pR[0][n]) if side == "right-state" else float(disc.pL[0][0])
        if res is not None:
            res.evals += 1
            res.worst("seam-exactness/eps", abs(got - exact) / sc / EPS)
        if not abs(got - exact) <= tol:
            out.append(("C11/%s/periodic-seam/%s" % (rname.replace(":", "-"), side), "%s widths %r profile %g+%g x across the seam: %s at the seam face is %r, exact %r"
                        % (rname, wv, a, b, side, got, exact)))
        elif twin != got:
            out.append(("C11/%s/periodic-seam/both-end-faces-carry-the-same-state" % rname.replace(":", "-"), "%s widths %r: %s differs between face 0 and face n: %r vs %r"
                        % (rname, wv, side, got, twin)))
    return out


def check_extrapol1(wv, idx, bc):
    mesh = space.mesh_from_widths(wv, 0.0)
    n = len(wv)
    model = space.convection.model(-1.0)
    u = np.array([space.S_QUICK[i] for i in idx])
    bcs = {"type": "per"} if bc == "per" else {"type": "dirichlet", "prim": [np.float64(7.0)]}
    disc = space.modeldisc.fvm(model, mesh, space.xnum.extrapol1(), bcL=bcs, bcR=bcs)
    disc.rhs(space.field.fdata(model, mesh, [u.copy()]))
    pL, pR = np.asarray(disc.pL[0]), np.asarray(disc.pR[0])
    out = []
    if not (np.array_equal(pL[1:], u) and np.array_equal(pR[:-1], u)):
        out.append(("C11/extrapol1/adjacent-cell-values", "widths %r data %r: pL[1:]=%r pR[:-1]=%r" % (wv, u.tolist(), pL[1:].tolist(), pR[:-1].tolist())))
    want = (u[-1], u[0]) if bc == "per" else (7.0, 7.0)
    if not (pL[0] == want[0] and pR[n] == want[1]):
        out.append(("C11/extrapol1/boundary-faces/%s" % bc, "widths %r data %r: pL[0]=%r pR[n]=%r expected %r" % (wv, u.tolist(), pL[0], pR[n], want)))
    return out


def kappa_matrix(n, a, kap, dx):
    """circulant operator of the kappa scheme for u_t + a u_x = 0 (upwind flux), built from the textbook face formula"""
    M = np.zeros((n, n))

    def face_L(i):      # left state at face i+1/2 as coefficients on u
        c = np.zeros(n)
        c[i % n] += 1.0
        c[i % n] += 0.25 * (1 - kap)
        c[(i - 1) % n] -= 0.25 * (1 - kap)
        c[(i + 1) % n] += 0.25 * (1 + kap)
        c[i % n] -= 0.25 * (1 + kap)
        return c

    def face_R(i):      # right state at face i+1/2
        c = np.zeros(n)
        c[(i + 1) % n] += 1.0
        c[(i + 2) % n] -= 0.25 * (1 - kap)
        c[(i + 1) % n] += 0.25 * (1 - kap)
        c[(i + 1) % n] -= 0.25 * (1 + kap)
        c[i % n] += 0.25 * (1 + kap)
        return c
    face = face_L if a > 0 else face_R
    for i in range(n):
        M[i, :] = -a * (face(i) - face(i - 1)) / dx
    return M


def op_matrix(disc, model, mesh, n):
    A = np.zeros((n, n))
    for j in range(n):
        e = np.zeros(n)
        e[j] = 1.0
        A[:, j] = disc.rhs(space.field.fdata(model, mesh, [e]))[0]
    return A


def check_stencil(rname, n, a, L, x0, res=None):
    kap = space.recon_kappa(rname)
    mesh = space.mesh1.unimesh(ncell=n, length=L, x0=x0)
    model = space.convection.model(a)
    disc = space.modeldisc.fvm(model, mesh, space.recon(rname))
    A = op_matrix(disc, model, mesh, n)
    M = kappa_matrix(n, a, kap, L / n)
    out = []
    err = np.abs(A - M).max() / (abs(a) / (L / n)) / EPS
    if res is not None:
        res.evals += n * n
        # 1D shifts of a linspace mesh carry an ulp of the cell-centre spacing: conditioning (x0+L)/dx
        res.worst("kappa-stencil/eps", err / (1 + (abs(x0) + L) / (L / n)))
    if not err <= K * (1 + (abs(x0) + L) / (L / n)):
        i, j = np.unravel_index(np.argmax(np.abs(A - M)), A.shape)
        out.append(("C11/%s/kappa-stencil/%s" % (rname.replace(":", "-"), "a>0" if a > 0 else "a<0"),
                    "%s n=%d a=%g L=%g x0=%g: operator entry (%d,%d) = %r, kappa=%g stencil gives %r" % (rname, n, a, L, x0, i, j, A[i, j], kap, M[i, j])))
    # linearity on which 'by unit impulses' rests
    rng = [(2.0, -3.0, 0, n - 1), (0.5, 7.0, n // 2, 0)]
    for al, be, p, q in rng:
        u = np.zeros(n)
        u[p] += al
        u[q] += be
        r = disc.rhs(space.field.fdata(model, mesh, [u.copy()]))[0]
        ref = al * A[:, p] + be * A[:, q]
        if not np.abs(r - ref).max() <= K * EPS * (abs(a) / (L / n)) * (abs(al) + abs(be)):
            out.append(("C11/%s/operator-linear" % rname.replace(":", "-"), "%s n=%d: rhs(%g e_%d + %g e_%d) is not the combination of the impulse responses" % (rname, n, al, p, be, q)))
    return out


INT_DATA = {3: [(0, 1, 0), (1, 2, 3), (5, -2, 4)], 5: [(0, 0, 1, 0, 0), (0, 1, 2, 3, 4), (3, 1, 4, 1, 5), (7, 7, -2, -2, 0)],
            8: [(0, 0, 0, 1, 0, 0, 0, 0), (0, 1, 2, 3, 4, 5, 6, 7), (3, 1, 4, 1, 5, 9, 2, 6)]}


def check_int_data(rname, wv, res=None):
    """integer-valued cell data handed over as int64/int32 arrays: the face states (and the operator) are those of the same values as floats"""
    mesh = space.mesh_from_widths(wv, -1.0)
    n = len(wv)
    model = space.convection.model(1.0)
    out = []
    for vals in INT_DATA[n]:
        ref = None
        for dt in (float, np.int64, np.int32):
            disc = space.modeldisc.fvm(model, mesh, space.recon(rname))
            with np.errstate(all="ignore"):
                r = np.asarray(disc.rhs(space.field.fdata(model, mesh, [np.array(vals, dtype=dt)]))[0], float).copy()
            got = (np.asarray(disc.pL[0], float).copy(), np.asarray(disc.pR[0], float).copy(), r)
            if res is not None:
                res.evals += 1
                res.nontrivial += 1
            if ref is None:
                ref = got
            elif not all(np.array_equal(x, y, equal_nan=True) for x, y in zip(got, ref)):
                out.append(("C11/%s/integer-typed-data" % rname.replace(":", "-"), "%s widths %r cell values %r as %s: left/right face states %r / %r, as float64 %r / %r" % (
                    rname, wv, vals, np.dtype(dt).name, got[0].tolist(), got[1].tolist(), ref[0].tolist(), ref[1].tolist())))
                break
    return out


def shard_int(rname):
    res = core.Res()
    for wv in ((1.0, 1.0, 1.0), (0.5, 2.0, 1.0), (1.0,) * 5, (0.5, 1.0, 2.0, 1.0, 0.5), (0.3,) * 8, (0.5, 1.0, 2.0, 1.0, 0.5, 2.0, 2.0, 1.0)):
        for s_, w in check_int_data(rname, wv, res):
            res.violation(s_, w, {"kind": "int", "recon": rname, "widths": list(wv)})
    return res


BC2_SETS = {"x-open": {"left": {"type": "insup", "ptot": 40.0, "rttot": 3.0, "p": 1.0}, "right": {"type": "outsup"}, "bottom": {"type": "per"}, "top": {"type": "per"}},
            "x-walls": {"left": {"type": "sym"}, "right": {"type": "sym"}, "bottom": {"type": "per"}, "top": {"type": "per"}},
            "y-open": {"bottom": {"type": "insup", "ptot": 40.0, "rttot": 3.0, "p": 1.0, "angle": 90.0}, "top": {"type": "outsup"}, "left": {"type": "per"}, "right": {"type": "per"}},
            "y-walls": {"bottom": {"type": "sym"}, "top": {"type": "sym"}, "left": {"type": "per"}, "right": {"type": "per"}},
            "all-walls": {t: {"type": "sym"} for t in ("left", "right", "bottom", "top")}}


def check_2d_linear(rname, nx, ny, bcname, res=None):
    """every primitive variable (density, both velocity components, pressure) linear along one direction on a grid that is NOT periodic in that
    direction: the faces whose stencil stays clear of the boundaries carry the exact profile, in every row/column"""
    model = space.euler.euler2d()
    lx, ly = 2.0, 0.75
    msh = space.mesh2.mesh2d(nx, ny, lx, ly)
    disc = space.modeldisc.fvm2d(model, msh, space.recon(rname), BC2_SETS[bcname], numflux="centered")
    xc, yc = [np.asarray(a, float) for a in msh.centers()]
    nc = nx * ny
    nxf = ny * (nx + 1)
    out = []
    dx, dy = lx / nx, ly / ny
    for axis in ((0,) if bcname.startswith("x") else (1,) if bcname.startswith("y") else (0, 1)):
        s_ = xc if axis == 0 else yc
        prof = {"rho": (1.0, 0.1), "u": (0.3, 0.2), "v": (-0.2, 0.15), "p": (1.0, 0.05)}
        lin = lambda name, t: prof[name][0] + prof[name][1] * t
        prim = [lin("rho", s_), np.array([lin("u", s_), lin("v", s_)]), lin("p", s_)]
        q = model.prim2cons(prim)
        with np.errstate(all="ignore"):
            disc.rhs(space.field.fdata(model, msh, [np.asarray(a, float).copy() for a in q]))
        got = {"rho": (disc.pL[0], disc.pR[0]), "u": (disc.pL[1][0], disc.pR[1][0]), "v": (disc.pL[1][1], disc.pR[1][1]), "p": (disc.pL[2], disc.pR[2])}
        worst, where = 0.0, None
        n = nx if axis == 0 else ny
        for name, (pL, pR) in got.items():
            pL, pR = np.asarray(pL, float), np.asarray(pR, float)
            for j in range(ny if axis == 0 else nx):
                for i in range(1, n):
                    if axis == 0:
                        f, t = j * (nx + 1) + i, i * dx
                    else:
                        f, t = nxf + i * nx + j, i * dy
                    want = lin(name, t)
                    if i >= 2:       # left state comes from cell i-1, which needs an interior face on its other side
                        e = abs(pL[f] - want)
                        if e > worst:
                            worst, where = e, (name, "left", j, i, pL[f], want)
                    if i <= n - 2:
                        e = abs(pR[f] - want)
                        if e > worst:
                            worst, where = e, (name, "right", j, i, pR[f], want)
        if res is not None:
            res.evals += 8 * n * (ny if axis == 0 else nx)
            res.worst("2d-linear-exactness/eps", worst / 2.0 / EPS)
        if not worst <= K * EPS * 2.0:
            out.append(("C11/2d/%s/linear/%s/%s" % (rname.replace(":", "-"), bcname, "along-x" if axis == 0 else "along-y"),
                        "%s grid %dx%d boundaries %s, profile linear along %s: %s state of %s at face %d of line %d is %r, exact %r" % (
                            rname, nx, ny, bcname, "xy"[axis], where[1], where[0], where[3], where[2], where[4], where[5])))
    return out


def check_2d(rname, nx, ny, res=None, mix=None):
    """mix: None = periodic in both directions; 'y' = periodic in y only (walls in x): the faces along y are judged; 'x' likewise"""
    kap = space.recon_kappa(rname)
    model = space.euler.euler2d()
    msh = space.mesh2.mesh2d(nx, ny, 2.0, 0.75)
    bcl = {t: {"type": "per"} for t in ("left", "right", "top", "bottom")}
    if mix == "y":
        bcl["left"] = bcl["right"] = {"type": "sym"}
    elif mix == "x":
        bcl["top"] = bcl["bottom"] = {"type": "sym"}
    disc = space.modeldisc.fvm2d(model, msh, space.recon(rname), bcl, numflux="centered")
    out = []
    nc = nx * ny
    nxf = ny * (nx + 1)
    for cell in range(nc):
        rho = np.ones(nc)
        rho[cell] = 2.0
        q = [rho.copy(), np.zeros((2, nc)), np.full(nc, 2.5)]
        with np.errstate(all="ignore"):
            disc.rhs(space.field.fdata(model, msh, q))
        pL, pR = np.asarray(disc.pL[0], float), np.asarray(disc.pR[0], float)
        r2 = rho.reshape(ny, nx)

        def L_of(line, i):     # left state at the face between i-1 and i of a periodic line
            n = line.size
            um, u0, up = line[(i - 2) % n], line[(i - 1) % n], line[i % n]
            return u0 if kap is None else u0 + 0.25 * ((1 - kap) * (u0 - um) + (1 + kap) * (up - u0))

        def R_of(line, i):
            n = line.size
            um, u0, up = line[(i - 1) % n], line[i % n], line[(i + 1) % n]
            return u0 if kap is None else u0 - 0.25 * ((1 - kap) * (up - u0) + (1 + kap) * (u0 - um))
        worst = 0.0
        where = None
        for j in (range(ny) if mix != "y" else ()):
            for i in range(nx + 1):
                f = j * (nx + 1) + i
                for got, want, side in ((pL[f], L_of(r2[j, :], i), "L"), (pR[f], R_of(r2[j, :], i), "R")):
                    e = abs(got - want)
                    if e > worst:
                        worst, where = e, ("i-face", j, i, side, got, want)
        for j in (range(ny + 1) if mix != "x" else ()):
            for i in range(nx):
                f = nxf + j * nx + i
                for got, want, side in ((pL[f], L_of(r2[:, i], j), "L"), (pR[f], R_of(r2[:, i], j), "R")):
                    e = abs(got - want)
                    if e > worst:
                        worst, where = e, ("j-face", j, i, side, got, want)
        if res is not None:
            res.evals += 2 * ((nx + 1) * ny + nx * (ny + 1))
            res.worst("2d-face-states/eps", worst / 2.0 / EPS)
        if not worst <= K * EPS * 2.0:
            out.append(("C11/2d/%s/%s" % ("first-order" if kap is None else "kappa-stencil", where[0]),
                        "%s grid %dx%d impulse at cell %d: %s state at %s (row %d, col %d) is %r, expected %r" % (rname, nx, ny, cell, where[3], where[0], where[1], where[2], where[4], where[5])))
            break
    return out


# gentle slopes on a large mean value: the jumps between neighbours are 1e-4..1e-8 of the values themselves
GENTLE = [(300.0, 0.05), (1.0, -1e-5), (-1e4, 1e-3)]


def shard_profiles(arg):
    rname, n = arg
    res = core.Res()
    # ONE reconstruction object serves every mesh of the shard (all have n cells, different faces), as in a user's loop over meshes:
    # geometry remembered from a previous mesh must not leak into the next one.  A replay uses a fresh object; if a violation only shows
    # with the shared object the shard-level re-execution below reports it.
    shared = space.recon(rname)
    hist = []
    for wv0 in list(space.width_vectors(n)) + [w for w in space.ODD_SCALE_WIDTHS if len(w) == n]:
      for scale, profiles in ((1.0, list(itertools.product((0.0, 2.0, 5.0), (0.0, 1.0, -3.0)))), (0.3, [(0.1, 0.7), (-1.3, -0.9)]),
                              (1.0, GENTLE), (0.3, GENTLE[:1])):
        wv = tuple(scale * x for x in wv0)      # 0.3: faces, centres and values are not dyadic, every operation rounds
        for a, b in profiles:
            if b != 0:
                res.nontrivial += 1
            v = check_profile(rname, wv, a, b, res, num=shared)
            if v and not check_profile(rname, wv, a, b):
                for s, w in v:
                    res.violation(s.replace("C11/", "C11/reused-reconstruction-object/", 1), w + " [only when the reconstruction object has served another mesh before: %r]" % (hist[-1:],),
                                  {"kind": "reuse", "recon": rname, "n": n})
            else:
                for s, w in v:
                    res.violation(s, w, {"kind": "profile", "recon": rname, "widths": list(wv), "a": a, "b": b})
            hist.append(wv)
            if b != 0 and n >= 3 and rname != "extrapol1":
                v = check_seam(rname, wv, a, b, res, num=shared)
                if v and not check_seam(rname, wv, a, b):
                    for s, w in v:
                        res.violation(s.replace("C11/", "C11/reused-reconstruction-object/", 1), w + " [only when the reconstruction object has served another mesh before]",
                                      {"kind": "reuse", "recon": rname, "n": n})
                else:
                    for s, w in v:
                        res.violation(s, w, {"kind": "seam", "recon": rname, "widths": list(wv), "a": a, "b": b})
    res.sample({"recon": rname, "widths": list(space.width_vectors(n)[len(space.width_vectors(n)) // 2]), "profile": "2 - 3 x"}, cap=1)
    return res


def shard_e1(n):
    res = core.Res()
    for wv in space.width_vectors(n)[:: (1 if n <= 3 else 4)]:
        for idx in itertools.product(range(5), repeat=n):
            for bc in ("per", "dirichlet"):
                res.evals += 1
                res.nontrivial += 1 if len(set(idx)) > 1 else 0
                for s, w in check_extrapol1(wv, idx, bc):
                    res.violation(s, w, {"kind": "e1", "widths": list(wv), "idx": list(idx), "bc": bc})
    return res


def shard_stencil(rname):
    res = core.Res()
    for n in list(range(1, 9)) + [9, 13, 16, 33]:
        for a in (1.0, -1.5):
            for L, x0 in ((float(n), 0.0), (1.0, 0.0), (0.3, -4.0)):
                if n >= 3:
                    res.nontrivial += 1
                for s, w in check_stencil(rname, n, a, L, x0, res):
                    res.violation(s, w, {"kind": "stencil", "recon": rname, "n": n, "a": a, "L": L, "x0": x0})
    res.sample({"recon": rname, "n": 5, "a": -1.5, "impulse_at": 2}, cap=1)
    return res


def shard_2d(arg):
    rname, nx, ny = arg
    res = core.Res()
    res.nontrivial += nx * ny
    for s, w in check_2d(rname, nx, ny, res):
        res.violation(s, w, {"kind": "2d", "recon": rname, "nx": nx, "ny": ny})
    # periodic in one direction only (walls in the other): the faces along the periodic direction still see the periodic stencil
    for mix in ("x", "y"):
        for s, w in check_2d(rname, nx, ny, res, mix=mix):
            res.violation(s.replace("C11/2d/", "C11/2d/periodic-in-%s-only/" % mix), w + " [grid periodic in %s only]" % mix, {"kind": "2d", "recon": rname, "nx": nx, "ny": ny, "mix": mix})
    return res


def shard_2d_linear(arg):
    rname, nx, ny = arg
    res = core.Res()
    for bcname in BC2_SETS:
        res.nontrivial += 1
        for s_, w in check_2d_linear(rname, nx, ny, bcname, res):
            res.violation(s_, w, {"kind": "2dlin", "recon": rname, "nx": nx, "ny": ny, "bc": bcname})
    return res


def run(ctx):
    ns = (1, 2, 3, 4, 5, 6) if ctx.thorough else (1, 2, 3, 4, 5)
    ctx.pmap("linear-and-constant-profiles", shard_profiles, [(r, n) for n in ns[::-1] for r in space.X1_ALL])
    ctx.pmap("extrapol1-adjacent-values", shard_e1, [1, 2, 3, 4])
    ctx.pmap("kappa-stencil-1d", shard_stencil, space.X1_UNLIMITED)
    ctx.pmap("integer-typed-cell-data", shard_int, space.X1_ALL)
    ctx.pmap("linear-profiles-2d-non-periodic", shard_2d_linear, [(r, nx, ny) for r in space.X2_ALL if r != "extrapol2d1" for nx, ny in ((5, 1), (1, 5), (5, 3), (3, 5), (6, 4), (4, 7), (7, 7))])
    ctx.pmap("face-states-2d", shard_2d, [(r, nx, ny) for r in space.X2_ALL for nx in range(1, 5) for ny in range(1, 5)])


def replay(case):
    k = case["kind"]
    if k == "reuse":
        r = shard_profiles((case["recon"], case["n"]))
        return [(v["site"], v["what"]) for v in r.viols if "/reused-reconstruction-object/" in v["site"]]
    if k == "profile":
        return check_profile(case["recon"], tuple(case["widths"]), case["a"], case["b"])
    if k == "seam":
        return check_seam(case["recon"], tuple(case["widths"]), case["a"], case["b"])
    if k == "e1":
        return check_extrapol1(tuple(case["widths"]), tuple(case["idx"]), case["bc"])
    if k == "2dlin":
        return check_2d_linear(case["recon"], case["nx"], case["ny"], case["bc"])
    if k == "int":
        return check_int_data(case["recon"], tuple(case["widths"]))
    if k == "stencil":
        return check_stencil(case["recon"], case["n"], case["a"], case["L"], case["x0"])
    if case.get("mix"):
        return [(s_.replace("C11/2d/", "C11/2d/periodic-in-%s-only/" % case["mix"]), w + " [grid periodic in %s only]" % case["mix"]) for s_, w in check_2d(case["recon"], case["nx"], case["ny"], None, case["mix"])]
    return check_2d(case["recon"], case["nx"], case["ny"])
