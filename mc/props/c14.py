"""C14 - periodic boundaries are seamless (translation invariance).

Shape B: every data assignment of an alphabet on every uniform periodic mesh with
n in 1..5 (thorough 6) cells x every cyclic shift x model x registered flux x
reconstruction: rhs(shifted data) = shifted rhs(data).  2D: all assignments on
grids {1,2,3}^2 (thorough 4) x all (sx,sy) shifts, bit for bit.  Shape A: two real
solve iterations (+1 snapshot) for every integrator class.
"""
import itertools

import numpy as np

from .. import core, space
from .c13 import flux_scales

ID = "C14"
LEVEL = "exploration"
RULE = ("1D: all assignments of a 3-5 letter alphabet to n in 1..5 (thorough 6) periodic cells x all n shifts x 6 models x every registered flux x 9-16 "
        "reconstructions x 2 mesh placements; 2D: all assignments of 3 letters (2 on 3x3 in quick) on grids (nx,ny) in {1,2,3}^2 x all nx*ny shifts x "
        "{centered,hlle} x 6 reconstructions; solve: every integrator class x systems x all assignments on n=4 (2D 2x3, 3x2), 2 iterations + snapshot. "
        "non-trivial = data not invariant under the shift")
ASSUMPTIONS = ["cell states between alphabet letters are not explored",
               "1D: tolerance 32 eps x flux scale/dx (cell-centre distances of a linspace mesh differ by an ulp along the mesh); bitwise on meshes with exactly representable spacing is reported in the census",
               "2D: bitwise (plain differences, no coordinates involved)", "implicit classes: 1e-6 (1+CFL)"]
EPS = np.finfo(float).eps
K = 32.0
MODELS = {
    "convection+": (("convection", 1.0), "convection"), "convection-": (("convection", -1.5), "convection"), "burgers": (("burgers",), "burgers"),
    "shallowwater": (("shallowwater", 9.81), "shallowwater"), "euler1d": (("euler1d", 1.4), "euler1d"), "nozzle-const": (("nozzle", "const", 1.4), "euler1d"),
    "euler1d-g5/3": (("euler1d", 5.0 / 3.0), "euler1d"), "shallowwater-g1": (("shallowwater", 1.0), "shallowwater"),       # secondary parameters
}


def check_1d(mname, flux, rname, n, L, x0, nlet, strength, res=None):
    spec, kind = MODELS[mname]
    mesh = space.mesh1.unimesh(ncell=n, length=L, x0=x0)
    model, disc = space.build_1d(spec, flux, rname, mesh)
    al = space.cons_alphabet(kind, strength)
    neq = model.neq
    R, S, ok = {}, {}, {}
    pos = [0, 2] if kind == "euler1d" else ([0] if kind == "shallowwater" else [])
    # small meshes: every assignment; larger meshes: every cyclic translate of the base patterns (closed under shifts)
    assignments = itertools.product(range(nlet), repeat=n) if n <= 6 else space.pattern_assignments(n, nlet)
    for idx in assignments:
        f = space.field_from_letters(model, mesh, al, idx)
        with np.errstate(all="ignore"):
            r = [np.asarray(x, float).copy() for x in disc.rhs(f)]
        R[idx] = r
        ok[idx] = all(np.all(np.asarray(disc.pL[k]) > 0) and np.all(np.asarray(disc.pR[k]) > 0) for k in pos) and all(np.all(np.isfinite(x)) for x in r)
        # scale of the flux terms from the face states and from the cell states (an alternating field reconstructs to face states that cancel to
        # round-off: the rounding of the face states is relative to the cell values)
        cells = type("P", (), {"pL": disc.pdata, "pR": disc.pdata})
        S[idx] = [max(float(np.nanmax(s)), float(np.nanmax(c))) for s, c in zip(flux_scales(kind, model, disc), flux_scales(kind, model, cells))]
    out = []
    dx = L / n
    exact_mesh = float(dx).is_integer() and float(x0).is_integer()
    site = "C14/1d/%s/%s/%s" % (mname, flux or "builtin", "unlimited" if space.recon_kappa(rname) is not None else rname.replace(":", "-"))
    for idx in R:
        for k in range(1, n):
            sh = idx[-k:] + idx[:-k]           # data rolled by k cells
            if res is not None:
                res.evals += 1
                if sh != idx:
                    res.nontrivial += 1
            if not (ok[idx] and ok[sh]):
                if ok[idx] != ok[sh]:
                    out.append((site + "/admissibility-differs", "%s %s %s n=%d data %r: admissible/finite, but not its shift by %d (or vice versa)" % (mname, flux, rname, n, idx, k)))
                elif res is not None:
                    res.skipped += 1
                continue
            for q in range(neq):
                want = np.roll(R[idx][q], k)
                got = R[sh][q]
                if np.array_equal(got, want):
                    if res is not None:
                        res.census["1d/bitwise%s" % ("/exact-mesh" if exact_mesh else "")] += 1
                    continue
                sc = max(S[idx][q], S[sh][q]) / dx + np.abs(want).max() + 1e-300
                err = np.abs(got - want).max() / sc / EPS
                if res is not None:
                    res.census["1d/round-off%s" % ("/exact-mesh" if exact_mesh else "")] += 1
                    res.worst("shift-1d/eps", err)
                # cell-centre distances carry a relative error kappa*eps, kappa = 2(|x0|+L)/dx (ulp of the coordinates over the spacing); a limited
                # slope moves a face state by up to 2 kappa eps |dW| and the flux by about as much of its scale: 4 kappa
                if not err <= K * (1 + 8 * (abs(x0) + L) / dx):
                    out.append((site + "/eq%d" % q, "%s %s %s n=%d L=%g x0=%g data %r shift %d: rhs of the shifted data differs from the shifted rhs by %.3g eps: %r vs %r"
                                % (mname, flux, rname, n, L, x0, idx, k, err, got.tolist(), want.tolist())))
                    return out
    return out


def shard_1d(arg):
    mname, flux, rname, tier = arg
    res = core.Res()
    strength = "mild" if space.recon_kappa(rname) is not None else "strong"
    ns = (1, 2, 3, 4, 5, 6) if tier == "thorough" else (1, 2, 3, 4, 5)
    ns = ns + ((7, 8, 13, 16, 33) if (tier == "thorough" or rname in ("extrapol1", "extrapol3", "muscl:vanleer", "muscl:superbee")) else ())
    for n in ns:
        nlet = {1: 5, 2: 5, 3: 5, 4: 4, 5: 3, 6: 2}.get(n, 3)
        for L, x0 in ((float(n), 0.0), (1.0, -4.0)) + (((3e-6, 0.0), (4e3, 1e3)) if n in (3, 4, 7) else ()):      # also domains at unusual scales
            for s, w in check_1d(mname, flux, rname, n, L, x0, nlet, strength, res):
                res.violation(s, w, {"kind": "1d", "model": mname, "flux": flux, "recon": rname, "n": n, "L": L, "x0": x0, "nlet": nlet, "strength": strength})
    res.sample({"model": mname, "flux": flux, "recon": rname, "n": 4, "data_letters": [0, 1, 1, 2], "shift": 1}, cap=1)
    return res


ALPHA2D = [(1.0, 0.0, 0.0, 1.0), (2.0, 0.5, -0.3, 1.0), (1.0, -0.4, 0.6, 2.0)]
PER = {t: {"type": "per"} for t in ("left", "right", "top", "bottom")}
# periodic in one direction only: the invariance holds for shifts along that direction
BC2 = {"per": PER,
       "xper-ywall": {"left": {"type": "per"}, "right": {"type": "per"}, "top": {"type": "sym"}, "bottom": {"type": "sym"}},
       "yper-xwall": {"left": {"type": "sym"}, "right": {"type": "sym"}, "top": {"type": "per"}, "bottom": {"type": "per"}},
       "yper-xopen": {"left": {"type": "insub", "ptot": 3.0, "rttot": 1.5}, "right": {"type": "outsub", "p": 0.9}, "top": {"type": "per"}, "bottom": {"type": "per"}}}


def field2d(model, msh, idx):
    P = np.array([ALPHA2D[i] for i in idx]).T
    q = [P[0].copy(), np.array([P[0] * P[1], P[0] * P[2]]), P[3] / 0.4 + 0.5 * P[0] * (P[1] ** 2 + P[2] ** 2)]
    return space.field.fdata(model, msh, q)


def roll2d(a, nx, ny, sx, sy):
    """cyclic shift of row-wise cell data (last axis) by sx cells along x and sy along y"""
    a = np.asarray(a)
    b = a.reshape(a.shape[:-1] + (ny, nx))
    return np.roll(np.roll(b, sx, axis=-1), sy, axis=-2).reshape(a.shape)


def check_2d(flux, rname, nx, ny, nlet, res=None, bcname="per"):
    model = space.euler.euler2d()
    msh = space.mesh2.mesh2d(nx, ny, 2.0, 0.75)
    disc = space.modeldisc.fvm2d(model, msh, space.recon(rname), BC2[bcname], numflux=flux)
    R, ok = {}, {}
    nc = nx * ny
    for idx in itertools.product(range(nlet), repeat=nc):
        f = field2d(model, msh, idx)
        with np.errstate(all="ignore"):
            r = disc.rhs(f)
        R[idx] = [np.asarray(x, float).copy() for x in r]
        ok[idx] = all(np.all(np.isfinite(x)) for x in R[idx])
    out = []
    site = "C14/2d/%s/%s%s" % (flux, "first-order" if rname == "extrapol2d1" else "k-scheme", "" if bcname == "per" else "/" + bcname)
    ar = np.arange(nc)
    for sx in (range(nx) if bcname in ("per", "xper-ywall") else (0,)):
        for sy in (range(ny) if bcname in ("per", "yper-xwall", "yper-xopen") else (0,)):
            if sx == 0 and sy == 0:
                continue
            perm = roll2d(ar, nx, ny, sx, sy)      # perm[c] = index of the cell whose content moves to c
            for idx in R:
                sh = tuple(idx[p] for p in perm)
                if res is not None:
                    res.evals += 1
                    if sh != idx:
                        res.nontrivial += 1
                if not (ok[idx] and ok[sh]):
                    if res is not None:
                        res.skipped += 1
                    continue
                for q in range(3):
                    want = roll2d(R[idx][q], nx, ny, sx, sy)
                    if not np.array_equal(R[sh][q], want):
                        out.append((site + "/eq%d" % q, "%s %s grid %dx%d data %r shift (%d,%d): rhs of the shifted data is not bit-identical to the shifted rhs (max difference %.3g)"
                                    % (flux, rname, nx, ny, idx, sx, sy, np.abs(R[sh][q] - want).max())))
                        return out
    return out


def shard_2d(arg):
    flux, rname, nx, ny, nlet = arg[:5]
    bcname = arg[5] if len(arg) > 5 else "per"
    res = core.Res()
    for s, w in check_2d(flux, rname, nx, ny, nlet, res, bcname):
        res.violation(s, w, {"kind": "2d", "flux": flux, "recon": rname, "nx": nx, "ny": ny, "nlet": nlet, "bc": bcname})
    res.sample({"flux": flux, "recon": rname, "grid": [nx, ny], "data_letters": [1] + [0] * (nx * ny - 1), "shift": [1, 0]}, cap=1)
    return res


SYS1D = [("convection-", None, "extrapol3"), ("burgers", None, "muscl:minmod"), ("shallowwater", "hll", "muscl:vanleer"), ("euler1d", "hllc", "muscl:superbee"),
         ("euler1d", "hlle", "extrapol2")]


def check_solve_1d(iname, sysi, idx, res=None):
    mname, flux, rname = SYS1D[sysi]
    spec, kind = MODELS[mname]
    cls = space.integrators()[iname]
    impl = space.is_implicit(cls)
    n = len(idx)
    mesh = space.mesh1.unimesh(ncell=n, length=float(n))
    model, disc = space.build_1d(spec, flux, rname, mesh)
    al = space.cons_alphabet(kind, "mild")
    out = []

    def run(ix):
        f = space.field_from_letters(model, mesh, al, ix)
        with np.errstate(all="ignore"), core.time_limit(5.0):
            dt0 = float(np.min(disc.calc_timestep(f, 0.3)))
            o = cls(mesh, disc).solve(f, 0.3, [0.4 * dt0], stop={"maxit": 2, "tottime": 1e30})
            o.extend(cls(mesh, disc).solve(f, 0.3, stop={"maxit": 2}))      # the snapshot run returns only the snapshot
            if np.all(np.isfinite(np.asarray(disc.calc_timestep(f, 0.3), float))):      # not with Burgers cells at rest (infinite local step: the finding recorded under C03)
                o.extend(cls(mesh, disc).solve(f, 0.3, stop={"maxit": 2}, directives={"dtlocal": True}))     # every cell advanced by its own step
            return o
    base = run(idx)
    site = "C14/solve1d/%s/%s" % (iname, mname)
    for k in range(1, n):
        sh = idx[-k:] + idx[:-k]
        o = run(sh)
        if res is not None:
            res.transitions += 1
            res.evals += 1
        for ga, gb in zip(base.solutions, o.solutions):
            if not (np.isfinite(ga.time) and np.isfinite(gb.time) and all(np.all(np.isfinite(d)) for d in ga.data) and all(np.all(np.isfinite(d)) for d in gb.data)):
                if res is not None:
                    res.skipped += 1      # a run that left the admissible set is chaotic at round-off level: counted, not judged
                break
            if not abs(ga.time - gb.time) <= (2e-6 if impl else 64 * EPS) * abs(ga.time):
                out.append((site + "/time", "times differ %r vs %r" % (ga.time, gb.time)))
                return out
            for q in range(model.neq):
                want = np.roll(ga.data[q], k)
                if np.array_equal(gb.data[q], want, equal_nan=True):
                    continue
                if not (np.all(np.isfinite(want)) and np.all(np.isfinite(gb.data[q]))):
                    if np.all(np.isfinite(want)) != np.all(np.isfinite(gb.data[q])):
                        out.append((site + "/finite", "%s data %r shift %d: finite vs non-finite" % (iname, idx, k)))
                        return out
                    continue
                err = np.abs(gb.data[q] - want).max() / (max(np.abs(d).max() for d in ga.data) + 1e-300)
                tol = 2e-6 if impl else 256 * EPS
                if res is not None:
                    res.worst("solve1d/" + ("implicit" if impl else "explicit"), err / tol)
                if not err <= tol:
                    out.append((site + "/eq%d" % q, "%s %s %s %s data %r shift %d: solution of the shifted data differs from the shifted solution by %.3g" % (
                        iname, mname, flux, rname, idx, k, err)))
                    return out
    return out


def shard_solve_1d(arg):
    iname, sysi = arg
    res = core.Res()
    for idx in itertools.product(range(3), repeat=4):
        if len(set(idx)) == 1:
            continue
        res.nontrivial += 1
        for s, w in check_solve_1d(iname, sysi, idx, res):
            res.violation(s, w, {"kind": "s1", "integrator": iname, "sys": sysi, "idx": list(idx)})
    return res


def check_solve_2d(iname, flux, rname, nx, ny, idx, res=None):
    cls = space.integrators()[iname]
    model = space.euler.euler2d()
    msh = space.mesh2.mesh2d(nx, ny, 2.0, 0.75)
    disc = space.modeldisc.fvm2d(model, msh, space.recon(rname), PER, numflux=flux)
    out = []

    def run(ix):
        f = field2d(model, msh, ix)
        with np.errstate(all="ignore"), core.time_limit(5.0):
            dt0 = float(np.min(disc.calc_timestep(f, 0.3)))
            o = cls(msh, disc).solve(f, 0.3, [0.4 * dt0], stop={"maxit": 2, "tottime": 1e30})
            o.extend(cls(msh, disc).solve(f, 0.3, stop={"maxit": 2}))
            return o
    base = run(idx)
    ar = np.arange(nx * ny)
    for sx, sy in ((1, 0), (0, 1), (1, 1), (nx - 1, ny - 1)):
        if (sx % nx, sy % ny) == (0, 0):
            continue
        perm = roll2d(ar, nx, ny, sx, sy)
        o = run(tuple(idx[p] for p in perm))
        if res is not None:
            res.transitions += 1
            res.evals += 1
        for ga, gb in zip(base.solutions, o.solutions):
            for q in range(3):
                want = roll2d(ga.data[q], nx, ny, sx, sy)
                if ga.time != gb.time or not np.array_equal(np.asarray(gb.data[q]), want, equal_nan=True):
                    out.append(("C14/solve2d/%s/%s" % (iname, flux), "%s %s %s grid %dx%d data %r shift (%d,%d): solution of the shifted data is not bit-identical to the shifted solution"
                                % (iname, flux, rname, nx, ny, idx, sx, sy)))
                    return out
    return out


def shard_solve_2d(arg):
    iname, flux, rname = arg
    res = core.Res()
    for nx, ny in ((2, 3), (3, 2), (1, 3)):
        for idx in itertools.product(range(2), repeat=nx * ny):
            if len(set(idx)) == 1:
                continue
            res.nontrivial += 1
            for s, w in check_solve_2d(iname, flux, rname, nx, ny, tuple(i + 1 for i in idx), res):
                res.violation(s, w, {"kind": "s2", "integrator": iname, "flux": flux, "recon": rname, "nx": nx, "ny": ny, "idx": [i + 1 for i in idx]})
    return res


def run(ctx):
    th = ctx.thorough
    recs = space.X1_ALL if th else space.X1_SHORT
    cfg = []
    for mname, (spec, kind) in MODELS.items():
        for flux in space.fluxes(space.make_model(spec)):
            for rname in recs:
                cfg.append((mname, flux, rname, ctx.tier))
    if not th:
        # every other reconstruction name on one scalar and one system configuration
        cfg += [(mname, flux, rname, ctx.tier) for rname in space.X1_REST for mname, flux in (("convection+", None), ("euler1d", "hllc")) if mname in MODELS]
    ctx.pmap("shift-1d", shard_1d, cfg)
    first = {}
    for c in cfg:
        first.setdefault((MODELS[c[0]][1], c[2]), c)
    ctx.pmap("shift-1d-reused-objects", core.Pooled(shard_1d), list(first.values()))
    cfg2 = []
    for flux in space.fluxes(space.euler.euler2d()):
        for rname in space.X2_ALL:
            for nx, ny in itertools.product((1, 2, 3) + ((4,) if th else ()), repeat=2):
                nc = nx * ny
                nlet = 3 if nc <= 6 else (3 if (th and nc <= 9) else 2)
                if nc > 12:
                    continue
                cfg2.append((flux, rname, nx, ny, nlet))
                if nc <= 6:
                    for b in ("xper-ywall", "yper-xwall", "yper-xopen"):
                        cfg2.append((flux, rname, nx, ny, min(nlet, 3), b))
    cfg2.sort(key=lambda c: -(c[4] ** (c[2] * c[3])))
    ctx.pmap("shift-2d", shard_2d, cfg2)
    cfg3 = [(i, s) for i in space.integrators() for s in range(len(SYS1D))]
    cfg3.sort(key=lambda c: not space.is_implicit(space.integrators()[c[0]]))
    ctx.pmap("solve-1d", shard_solve_1d, cfg3)
    cfg4 = [(i, fl, r) for i in space.explicit_integrators() for fl in ("hlle", "centered") for r in ("extrapol2d1", "extrapol2dk:0.3333333333333333")]
    ctx.pmap("solve-2d", shard_solve_2d, cfg4)


def replay(case):
    k = case["kind"]
    if k == "1d":
        return check_1d(case["model"], case["flux"], case["recon"], case["n"], case["L"], case["x0"], case["nlet"], case["strength"])
    if k == "2d":
        return check_2d(case["flux"], case["recon"], case["nx"], case["ny"], case["nlet"], None, case.get("bc", "per"))
    if k == "s1":
        return check_solve_1d(case["integrator"], case["sys"], tuple(case["idx"]))
    return check_solve_2d(case["integrator"], case["flux"], case["recon"], case["nx"], case["ny"], tuple(case["idx"]))
