"""C18 - the time step is CFL x cell size / fastest wave speed.

Exhaustive over a product alphabet of states x meshes x CFL numbers x models:
closed form, an independent spectral radius (eigenvalues of a central-difference
Jacobian of the model's own consistent flux F(W,W)), proportionality, locality
(all single-cell substitutions) and the use made of it by solve (global minimum /
local array), the latter as a small explicit-state exploration of the driver."""
import itertools

import numpy as np

from .. import core, space

ID = "C18"
LEVEL = "exploration"
RULE = ("states: product alphabet (12 decades of rho/p/h, Mach/Froude 0..30, 8 directions in 2D) x cell-width letters {1/2,1,2} x CFL "
        "{1e-3,1/2,1,7} x model; locality: all single-cell substitutions on all assignments of a 4-letter alphabet to n<=3 cells; "
        "driver: all (integrator, model, data assignment, dtlocal) combinations, 3 iterations. non-trivial = moving state / non-uniform data")
ASSUMPTIONS = ["states between alphabet letters are not explored",
               "spectral radius from a central-difference Jacobian (relative perturbation 1e-5, balanced) is accurate to 1e-7; threshold 1e-5",
               "a cell with zero wave speed (Burgers u=0) has no finite time step: +inf is accepted there (see known finding under C03)"]
EPS = np.finfo(float).eps
K = 32.0
CFLS = [1e-3, 0.5, 1.0, 7.0]


def spectral_radius(fluxfun, q, scales, delta=1e-5):
    """q: (neq, N) conservative states; fluxfun(q)->(neq,N); returns (N,) spectral radius of df/dq"""
    neq, N = q.shape
    J = np.zeros((N, neq, neq))
    for k in range(neq):
        h = delta * scales[k]
        qp, qm = q.copy(), q.copy()
        qp[k] += h
        qm[k] -= h
        d = (fluxfun(qp) - fluxfun(qm)) / (2 * h)
        J[:, :, k] = d.T
    D = np.array(scales).T          # (N, neq)
    Jb = J * D[:, None, :] / D[:, :, None]
    ev = np.linalg.eigvals(Jb)
    return np.abs(ev).max(axis=1)


def euler_states(g, tier):
    ex = np.arange(-6, 7, 2.0) if tier == "quick" else np.arange(-6, 7, 1.0)
    rs = 10.0 ** ex
    ms = [0.0, 1e-6, 0.3, -0.3, 1.0, -1.0, 3.0, -3.0, 30.0, -30.0]
    R, M, P = [x.ravel() for x in np.meshgrid(rs, ms, rs, indexing="ij")]
    return R, M, P


def widths_for(n, mode=None):
    """cell widths for the packed 1D mesh; mode 'tiny': the same at a scale of 1e-6, 'near': cells equal to within a few 1e-6"""
    w = np.array([0.5, 1.0, 2.0, 1.0, 0.5, 2.0, 2.0])
    if mode == "tiny":
        return np.resize(w, n) * 0.37e-6
    if mode == "near":
        return 1.0 + 1e-6 * (np.resize(w, n) - 1.0)
    return np.resize(w, n) * 0.37


def eval_pointwise(cfg, res=None):
    kind, par, extra = cfg
    out = []

    def judge(rule, err, tol, what):
        with np.errstate(all="ignore"):
            b = ~(err <= tol)
        if res is not None:
            res.evals += int(np.size(err))
            res.worst("%s/%s" % (kind, rule), np.max(np.where(np.isfinite(err), err, 0) / tol))
        for i in np.flatnonzero(b)[:10]:
            out.append(("C18/%s/%s" % (kind, rule), "%s %s: %s; error %.3g > %.3g at state index %d" % (kind, par, what, np.ravel(err)[i], tol if np.ndim(tol) == 0 else np.ravel(tol)[i], i), int(i)))

    if kind in ("euler1d", "nozzle"):
        g = par
        R, M, P = euler_states(g, extra.get("tier", "quick"))
        n = R.size
        c = np.sqrt(g * P / R)
        U = M * c
        cond = 1.0 + g * M * M
        model = space.euler.euler1d(gamma=g) if kind == "euler1d" else space.euler.nozzle(space.SECTION_LAWS["parab"], gamma=g)
        w = widths_for(n, extra.get("widths"))
        m = space.mesh_from_widths(w, -1.0)
        hs = m.xf[1:] - m.xf[:-1]
        disc = space.modeldisc.fvm(model, m, space.xnum.extrapol1())
        q = np.array([R, R * U, P / (g - 1) + 0.5 * R * U * U])
        f = space.field.fdata(model, m, [x.copy() for x in q])
        sr_ref = np.abs(U) + c

        def fl(qq):
            with np.errstate(all="ignore"):
                pr = model.cons2prim([qq[0], qq[1], qq[2]])
                return np.array(model.numflux(None, pr, pr))
        s = np.abs(U) + c
        sr_num = spectral_radius(fl, q, [R, R * s, R * s * s])
        judge("spectral-radius-closed-form-vs-flux-jacobian", np.abs(sr_num / sr_ref - 1), 1e-5, "|u|+c vs eig(dF/dQ)")
        for cfl in CFLS:
            with np.errstate(all="ignore"):
                dt = np.asarray(disc.calc_timestep(f, cfl), float)
            if dt.shape != (n,):
                out.append(("C18/%s/shape" % kind, "calc_timestep returned shape %r for %d cells" % (dt.shape, n), 0))
                continue
            judge("closed-form/cfl=%g" % cfl, np.abs(dt * sr_ref / (cfl * hs) - 1) / cond / EPS, K, "dt = CFL h/(|u|+c)")
            judge("jacobian/cfl=%g" % cfl, np.abs(dt * sr_num / (cfl * hs) - 1), 1e-5, "dt = CFL h/rho(J)")
            judge("positive-finite/cfl=%g" % cfl, np.where((dt > 0) & np.isfinite(dt), 0.0, np.inf), 0.5, "dt>0")
            dt2 = np.asarray(disc.calc_timestep(f, 2 * cfl), float)
            judge("proportional-to-cfl/cfl=%g" % cfl, np.where(dt2 == 2 * dt, 0.0, np.inf), 0.5, "dt(2 CFL) = 2 dt bitwise")
        m2 = space.mesh_from_faces(2.0 * m.xf)
        disc2 = space.modeldisc.fvm(model, m2, space.xnum.extrapol1())
        f2 = space.field.fdata(model, m2, [x.copy() for x in q])
        dta, dtb = np.asarray(disc.calc_timestep(f, 0.5)), np.asarray(disc2.calc_timestep(f2, 0.5))
        judge("proportional-to-cell-size", np.where(dtb == 2 * dta, 0.0, np.inf), 0.5, "dt(2h) = 2 dt bitwise")
        if res is not None:
            res.nontrivial += int(np.sum(M != 0))
    elif kind == "euler2d":
        g = par
        R, M, P = euler_states(g, "quick")
        ang = extra["angle"]
        n = R.size
        c = np.sqrt(g * P / R)
        V = np.array([M * c * np.cos(ang), M * c * np.sin(ang)])
        vm = np.abs(M) * c
        cond = 1.0 + g * M * M
        model = space.euler.euler2d(gamma=g)
        sr_ref = vm + c
        nvec = np.where(vm > 0, V / np.where(vm > 0, vm, 1.0), np.array([[1.0], [0.0]]) * np.ones((1, n)))
        q = np.array([R, R * V[0], R * V[1], P / (g - 1) + 0.5 * R * vm * vm])

        def fl(qq):
            with np.errstate(all="ignore"):
                pr = model.cons2prim([qq[0], np.array([qq[1], qq[2]]), qq[3]])
                F = model.numflux("hlle", pr, pr, nvec)
            return np.array([F[0], F[1][0], F[1][1], F[2]])
        s = vm + c
        sr_num = spectral_radius(fl, q, [R, R * s, R * s, R * s * s])
        judge("spectral-radius-closed-form-vs-flux-jacobian", np.abs(sr_num / sr_ref - 1), 1e-5, "|V|+c vs eig(n.dF/dQ), n along V")
        for (nx, ny, lx, ly) in extra["grids"]:
            if nx * ny > n:
                continue
            msh = space.mesh2.mesh2d(nx, ny, lx, ly)
            nc = nx * ny
            dx, dy = lx / nx, ly / ny
            h = dx * dy / (dx + dy)
            disc = space.modeldisc.fvm2d(model, msh, space.xnum.extrapol2d1(),
                                         {t: {"type": "per"} for t in ("left", "right", "top", "bottom")}, numflux="hlle")
            for start in range(0, n - nc + 1, nc):
                sl = slice(start, start + nc)
                f = space.field.fdata(model, msh, [q[0][sl].copy(), np.array([q[1][sl], q[2][sl]]), q[3][sl].copy()])
                for cfl in (0.5, 7.0):
                    with np.errstate(all="ignore"):
                        dt = np.asarray(disc.calc_timestep(f, cfl), float)
                    if dt.shape != (nc,):
                        out.append(("C18/euler2d/shape", "calc_timestep returned shape %r for %d cells" % (dt.shape, nc), start))
                        break
                    e = np.abs(dt * sr_ref[sl] / (cfl * h) - 1) / cond[sl] / EPS
                    with np.errstate(all="ignore"):
                        b = ~(e <= K) | ~(dt > 0)
                    if res is not None:
                        res.evals += nc
                        res.worst("euler2d/closed-form", np.max(np.where(np.isfinite(e), e, 0)) / K)
                    for i in np.flatnonzero(b)[:3]:
                        out.append(("C18/euler2d/closed-form-dxdy/(dx+dy)", "euler2d grid %r cfl %g: dt=%r expected %r" % (
                            (nx, ny, lx, ly), cfl, dt[i], cfl * h / sr_ref[sl][i]), int(start + i)))
        if res is not None:
            res.nontrivial += int(np.sum(M != 0))
    elif kind == "shallowwater":
        g = par
        hs_ = 10.0 ** np.arange(-6, 7, 1.0)
        fr = np.array([0.0, 1e-6, 0.3, -0.3, 1.0, -1.0, 3.0, -3.0, 30.0, -30.0])
        H, F = [x.ravel() for x in np.meshgrid(hs_, fr, indexing="ij")]
        c = np.sqrt(g * H)
        U = F * c
        n = H.size
        model = space.shallow.shallowwater1d(g=g)
        m = space.mesh_from_widths(widths_for(n, extra.get("widths")), 3.0)
        hs = m.xf[1:] - m.xf[:-1]
        disc = space.modeldisc.fvm(model, m, space.xnum.extrapol1())
        q = np.array([H, H * U])
        f = space.field.fdata(model, m, [x.copy() for x in q])
        sr_ref = np.abs(U) + c

        def fl(qq):
            pr = model.cons2prim([qq[0], qq[1]])
            return np.array(model.numflux(None, pr, pr))
        s = np.abs(U) + c
        sr_num = spectral_radius(fl, q, [H, H * s])
        judge("spectral-radius-closed-form-vs-flux-jacobian", np.abs(sr_num / sr_ref - 1), 1e-5, "|u|+sqrt(gh) vs eig(dF/dQ)")
        for cfl in CFLS:
            dt = np.asarray(disc.calc_timestep(f, cfl), float)
            judge("closed-form/cfl=%g" % cfl, np.abs(dt * sr_ref / (cfl * hs) - 1) / EPS, K, "dt = CFL h/(|u|+sqrt(gh))")
            judge("jacobian/cfl=%g" % cfl, np.abs(dt * sr_num / (cfl * hs) - 1), 1e-5, "dt = CFL h/rho(J)")
            judge("positive-finite/cfl=%g" % cfl, np.where((dt > 0) & np.isfinite(dt), 0.0, np.inf), 0.5, "dt>0")
            judge("proportional-to-cfl/cfl=%g" % cfl, np.where(np.asarray(disc.calc_timestep(f, 2 * cfl)) == 2 * dt, 0.0, np.inf), 0.5, "dt(2CFL)=2dt")
        m2 = space.mesh_from_faces(2.0 * m.xf)
        disc2 = space.modeldisc.fvm(model, m2, space.xnum.extrapol1())
        f2 = space.field.fdata(model, m2, [x.copy() for x in q])
        judge("proportional-to-cell-size", np.where(np.asarray(disc2.calc_timestep(f2, 0.5)) == 2 * np.asarray(disc.calc_timestep(f, 0.5)), 0.0, np.inf), 0.5, "dt(2h)=2dt")
        if res is not None:
            res.nontrivial += int(np.sum(F != 0))
    else:      # convection(a) / burgers
        vals = np.array(sorted(set([0.0] + [s_ * m_ * 10.0 ** e for s_ in (1, -1) for m_ in (1.0, 3.0) for e in range(-6, 7, 2)])))
        n = vals.size
        model = space.make_model((kind, par) if kind == "convection" else (kind,))
        m = space.mesh_from_widths(widths_for(n, extra.get("widths")), -2.0)
        hs = m.xf[1:] - m.xf[:-1]
        disc = space.modeldisc.fvm(model, m, space.xnum.extrapol1())
        f = space.field.fdata(model, m, [vals.copy()])
        q = vals[None, :].copy()

        def fl(qq):
            return np.array(model.numflux(None, [qq[0]], [qq[0]]))
        sc = np.where(vals == 0, 1.0, np.abs(vals))
        sr_num = spectral_radius(fl, q, [sc], delta=1e-3)
        sr_ref = np.full(n, abs(par)) if kind == "convection" else np.abs(vals)
        nz = sr_ref > 0
        judge("spectral-radius-closed-form-vs-flux-jacobian", np.where(nz, np.abs(sr_num - sr_ref) / np.where(nz, sr_ref, 1), np.abs(sr_num)), 1e-5, "|a| or |u| vs dF/dq")
        for cfl in CFLS:
            with np.errstate(all="ignore"):
                dt = np.asarray(disc.calc_timestep(f, cfl), float)
            if dt.shape != (n,):
                out.append(("C18/%s/shape" % kind, "calc_timestep returned shape %r" % (dt.shape,), 0))
                continue
            with np.errstate(all="ignore"):
                e = np.where(nz, np.abs(dt * sr_ref / (cfl * hs) - 1) / EPS, np.where(dt == np.inf, 0.0, np.inf))
            judge("closed-form/cfl=%g" % cfl, e, K, "dt = CFL h/|speed| (+inf where the speed is zero)")
            judge("positive/cfl=%g" % cfl, np.where(dt > 0, 0.0, np.inf), 0.5, "dt>0")
            with np.errstate(all="ignore"):
                judge("proportional-to-cfl/cfl=%g" % cfl, np.where(np.asarray(disc.calc_timestep(f, 2 * cfl)) == 2 * dt, 0.0, np.inf), 0.5, "dt(2CFL)=2dt")
        if res is not None:
            res.nontrivial += int(nz.sum())
            res.census["%s/zero-speed-cells" % kind] += int((~nz).sum())
    return out


# ---------------------------------------------------------------------------
# locality: every single-cell substitution on every assignment of a small alphabet
def _alpha(kind, par):
    if kind == "euler1d":
        st = [space.euler_state(1.0, 0.0, 1.0, par), space.euler_state(1e-3, 2.0, 1.0, par), space.euler_state(10.0, -0.5, 1e3, par),
              space.euler_state(2.0, 30.0, 0.3, par)]
        a = np.array(st).T
        return [np.array([a[0][i], a[0][i] * a[1][i], a[2][i] / (par - 1) + 0.5 * a[0][i] * a[1][i] ** 2]) for i in range(4)]
    if kind == "shallowwater":
        st = [space.sw_state(1.0, 0.0, par), space.sw_state(1e-3, 2.0, par), space.sw_state(10.0, -0.5, par), space.sw_state(0.3, 30.0, par)]
        return [np.array([h, h * u]) for h, u in st]
    return [np.array([v]) for v in (1.0, -2.0, 0.5, 3.0)]


def eval_locality(cfg, res=None):
    kind, par, wv = cfg
    out = []
    model = space.make_model((kind, par) if kind != "burgers" else (kind,))
    al = _alpha(kind, par)
    n = len(wv)
    m = space.mesh_from_widths(wv, 0.0)
    disc = space.modeldisc.fvm(model, m, space.xnum.extrapol1())
    cache = {}

    def dt_of(idx):
        if idx not in cache:
            data = [np.array([al[i][k] for i in idx]) for k in range(model.neq)]
            cache[idx] = np.asarray(disc.calc_timestep(space.field.fdata(model, m, data), 0.5), float)
        return cache[idx]
    for idx in itertools.product(range(4), repeat=n):
        base = dt_of(idx)
        for j in range(n):
            for a in range(4):
                if a == idx[j]:
                    continue
                alt = dt_of(idx[:j] + (a,) + idx[j + 1:])
                if res is not None:
                    res.evals += 1
                    res.nontrivial += 1
                others = [i for i in range(n) if i != j]
                if not np.array_equal(base[others], alt[others]):
                    out.append(("C18/%s/independent-of-other-cells" % kind, "%s widths %r data %r: changing cell %d to letter %d changed dt of another cell: %r -> %r"
                                % (kind, wv, idx, j, a, base.tolist(), alt.tolist()), 0))
                    return out
    return out


# ---------------------------------------------------------------------------
# driver: global minimum / local array, observed on the time increments and states of solve
def eval_driver(cfg, res=None):
    iname, kind, par, idx, wv = cfg
    out = []
    cls = space.integrators()[iname]
    model = space.make_model((kind, par) if kind != "burgers" else (kind,))
    al = _alpha(kind, par)
    n = len(wv)
    m = space.mesh_from_widths(wv, 0.0)
    flux = {"euler1d": "hllc", "shallowwater": "hll"}.get(kind)
    data = [np.array([al[i][k] for i in idx]) for k in range(model.neq)]
    cfl = 0.4

    def mk():
        d = space.modeldisc.fvm(model, m, space.xnum.extrapol1(), numflux=flux)
        return d, cls(m, d)
    # global step: t_{k+1} - t_k = min dt(Q_k), Q_k taken from a shorter solve on a fresh solver
    prev_t, prev_f = 0.0, space.field.fdata(model, m, [x.copy() for x in data])
    first_plain = None
    for k in range(1, 4):
        d, s = mk()
        with np.errstate(all="ignore"):
            r = s.solve(space.field.fdata(model, m, [x.copy() for x in data]), cfl, stop={"maxit": k})
        fk = r[-1]
        if k == 1:
            first_plain = fk
        with np.errstate(all="ignore"):
            want = float(np.min(d.calc_timestep(prev_f, cfl)))
        inc = fk.time - prev_t
        if res is not None:
            res.evals += 1
            res.transitions += 1
        if not np.all(np.isfinite(fk.data[0])):
            break
        if not abs(inc - want) <= 8 * EPS * max(abs(fk.time), want):
            out.append(("C18/driver/global-step-is-min-over-cells/%s" % ("gear" if space.is_multistep(cls) else "one-step"),
                        "%s %s data %r: iteration %d advanced time by %r, min dt(Q_%d) = %r" % (iname, kind, idx, k, inc, k - 1, want), 0))
            break
        prev_t, prev_f = fk.time, fk
    # the global step does not depend on requested snapshots: with a save time strictly inside the first and the third step the times visited
    # by the iterations (observed with a frequency-1 monitor) are those of the run without save times, and the first increment is min dt(Q_0)
    def visited(ts):
        d, s = mk()
        mon = {"residual": {"frequency": 1}}
        with np.errstate(all="ignore"), core.time_limit(5.0):
            s.solve(space.field.fdata(model, m, [x.copy() for x in data]), cfl, ts, stop={"maxit": 3, "tottime": 1e30}, monitors=mon)
        return [float(t) for t in mon["residual"]["output"]._time]
    try:
        plain = visited([])
        if len(plain) == 4 and np.all(np.isfinite(plain)):
            inside = [plain[0] + 0.4 * (plain[1] - plain[0]), plain[2] + 0.6 * (plain[3] - plain[2])]
            withsave = visited(inside)
            if res is not None:
                res.evals += 1
                res.transitions += 2
            d0, _ = mk()
            with np.errstate(all="ignore"):
                want0 = float(np.min(d0.calc_timestep(space.field.fdata(model, m, [x.copy() for x in data]), cfl)))
            if withsave != plain:
                out.append(("C18/driver/global-step-independent-of-save-times", "%s %s data %r: iterations visit times %r without save times, %r with save times %r inside steps 1 and 3"
                            % (iname, kind, idx, plain, withsave, inside), 0))
            elif not abs((plain[1] - plain[0]) - want0) <= 8 * EPS * want0:
                out.append(("C18/driver/global-step-is-min-over-cells/monitor", "%s %s data %r: first increment %r, min dt(Q_0) = %r" % (iname, kind, idx, plain[1] - plain[0], want0), 0))
    except core.CallTimeout:
        out.append(("C18/driver/non-termination", "%s %s data %r: solve with maxit 3 did not return" % (iname, kind, idx), 0))
    # local step: one iteration with the directive == one real step with the array; time advances by its minimum
    d, s = mk()
    f0 = space.field.fdata(model, m, [x.copy() for x in data])
    with np.errstate(all="ignore"):
        r = s.solve(f0, cfl, stop={"maxit": 1}, directives={"dtlocal": True})
    d2, s2 = mk()
    f1 = space.field.fdata(model, m, [x.copy() for x in data])
    with np.errstate(all="ignore"):
        dtl = np.asarray(d2.calc_timestep(f1, cfl), float)
        s2.step(f1, dtl)
    if res is not None:
        res.evals += 1
        res.transitions += 2
    same = all(np.array_equal(a, b, equal_nan=True) for a, b in zip(r[-1].data, f1.data))
    if not same:
        out.append(("C18/driver/dtlocal-uses-each-cells-own-step", "%s %s data %r: solve with dtlocal differs from step(field, dt array)" % (iname, kind, idx), 0))
    if not abs(r[-1].time - dtl.min()) <= 4 * EPS * dtl.min():
        out.append(("C18/driver/dtlocal-time-advances-by-minimum", "%s %s data %r: time %r, min dt %r" % (iname, kind, idx, r[-1].time, dtl.min()), 0))
    if len(set(np.round(dtl / dtl.min(), 12))) > 1 and res is not None:
        res.nontrivial += 1
    # history on one solver object: after a run with the directive, a plain solve again takes the minimum over cells as its global step
    with np.errstate(all="ignore"):
        r2 = s.solve(space.field.fdata(model, m, [x.copy() for x in data]), cfl, stop={"maxit": 1})
    if res is not None:
        res.evals += 1
        res.transitions += 1
    if not (r2[-1].time == first_plain.time and all(np.array_equal(a, b, equal_nan=True) for a, b in zip(r2[-1].data, first_plain.data))):
        out.append(("C18/driver/global-step-after-a-dtlocal-run-on-the-same-solver", "%s %s data %r: a plain solve on a solver that has just run with dtlocal reaches t=%r, a fresh solver t=%r (or different data)"
                    % (iname, kind, idx, r2[-1].time, first_plain.time), 0))
    return out


def eval_int(kind, par, res=None):
    """integer-valued data handed over as int64/int32 arrays: the time step is that of the same values as floats, bit for bit"""
    out = []
    model = space.make_model((kind, par) if kind != "burgers" else (kind,))
    data = space.int_cons_lattice(kind)
    n = data[0].size
    m = space.mesh_from_widths(widths_for(n), 0.0)
    disc = space.modeldisc.fvm(model, m, space.xnum.extrapol1())
    with np.errstate(all="ignore"):
        ref = np.asarray(disc.calc_timestep(space.field.fdata(model, m, [d.copy() for d in data]), 0.5), float)
        for dt in (np.int64, np.int32):
            got = np.asarray(disc.calc_timestep(space.field.fdata(model, m, [d.astype(dt) for d in data]), 0.5), float)
            if res is not None:
                res.evals += n
                res.nontrivial += n
            if not space.same_bits(got, ref):
                out.append(("C18/%s/integer-typed-data" % kind, "%s %r: calc_timestep of %s data %r is %r, of the same values as float64 %r" % (
                    kind, par, np.dtype(dt).name, [d.tolist() for d in data], got.tolist(), ref.tolist()), 0))
    return out


def shard_int(cfg):
    res = core.Res()
    for s, w, i in eval_int(cfg[0], cfg[1], res):
        res.violation(s, w, {"kind": "int", "cfg": list(cfg)})
    return res


def shard_point(cfg):
    res = core.Res()
    for s, w, i in eval_pointwise(cfg, res):
        res.violation(s, w, {"kind": "point", "cfg": list(cfg), "index": i})
    res.sample({"model": cfg[0], "param": cfg[1]}, cap=1)
    return res


def shard_local(cfg):
    res = core.Res()
    for s, w, i in eval_locality(cfg, res):
        res.violation(s, w, {"kind": "local", "cfg": [cfg[0], cfg[1], list(cfg[2])]})
    return res


class _Rec:
    """wraps a real discretisation: records (time, copy of the data) of every field handed to rhs (forward Euler: one per step, the state Q_k)"""

    def __init__(self, disc):
        self._d = disc
        self.log = []

    def rhs(self, f):
        self.log.append((float(np.ravel(f.time)[0]), [np.asarray(d, float).copy() for d in f.data]))
        return self._d.rhs(f)

    def __getattr__(self, k):
        return getattr(self._d, k)


def eval_legacy(kind, par, idx, wv, res=None):
    """the older driver solve_legacy: every step it takes is the minimum over cells of the CFL steps of the CURRENT state (shorter only to land on a
    save time), observed through the states handed to the space operator by forward Euler"""
    out = []
    model = space.make_model((kind, par) if kind != "burgers" else (kind,))
    al = _alpha(kind, par)
    m = space.mesh_from_widths(wv, 0.0)
    flux = {"euler1d": "hllc", "shallowwater": "hll"}.get(kind)
    data = [np.array([al[i][k] for i in idx]) for k in range(model.neq)]
    cfl = 0.4
    d = space.modeldisc.fvm(model, m, space.xnum.extrapol1(), numflux=flux)
    f0 = space.field.fdata(model, m, [x.copy() for x in data])
    with np.errstate(all="ignore"):
        dt0 = float(np.min(d.calc_timestep(f0, cfl)))
    if not np.isfinite(dt0):
        return out
    rec = _Rec(d)
    ts = [3.3 * dt0, 7.6 * dt0]
    try:
        with np.errstate(all="ignore"), core.time_limit(20.0):
            space.integ.explicit(m, rec).solve_legacy(f0, cfl, ts)
    except core.CallTimeout:
        return [("C18/driver/solve_legacy/non-termination", "%s data %r: solve_legacy did not return" % (kind, idx), 0)]
    if res is not None:
        res.evals += len(rec.log)
        res.transitions += 1
    for k in range(len(rec.log) - 1):
        (t0, q0), (t1, _) = rec.log[k], rec.log[k + 1]
        if not all(np.all(np.isfinite(x)) for x in q0):
            break
        with np.errstate(all="ignore"):
            want = float(np.min(d.calc_timestep(space.field.fdata(model, m, [x.copy() for x in q0]), cfl)))
        inc = t1 - t0
        landed = any(abs(t1 - s_) <= 4 * EPS * abs(s_) for s_ in ts)
        ok = abs(inc - want) <= 8 * EPS * max(abs(t1), want) or (landed and inc <= want * (1 + 8 * EPS))
        if not ok:
            out.append(("C18/driver/solve_legacy/step-is-min-over-cells-of-the-current-state", "%s %r data %r widths %r: iteration %d of solve_legacy advanced time by %r, min dt(Q_%d) = %r" % (
                kind, par, idx, wv, k + 1, inc, k, want), 0))
            break
    return out


def shard_legacy(cfg):
    kind, par = cfg
    res = core.Res()
    for wv in ((1.0, 1.0, 1.0), (0.5, 2.0, 1.0)):
        for idx in itertools.product(range(4), repeat=3):
            if len(set(idx)) == 1:
                continue
            res.nontrivial += 1
            for s, w, i in eval_legacy(kind, par, idx, wv, res):
                res.violation(s, w, {"kind": "legacy", "cfg": [kind, par, list(idx), list(wv)]})
    return res


def shard_implicit_local(arg):
    """with the directive, the implicit classes advance EVERY UNKNOWN OF A CELL by that cell's own step: one and two steps with the per-cell array
    against the theta (BDF2) system with D^-1 = diag(1/dt_cell) repeated over the equations of the cell, linearised with a reference Jacobian of
    the real operator (the machinery of C06)"""
    from . import c06
    mname, spec, flux, rname = arg
    res = core.Res()
    for bc in ("per", "wall"):
        for perm in list(itertools.permutations(range(4)))[::3]:
            res.nontrivial += 1
            for s, w in c06.check_nonlinear_steps(mname, spec, flux, rname, bc, perm, res, modes=("array",)):
                res.violation(s.replace("C06/nonlinear/", "C18/implicit-local-step/"), w, {"kind": "impl", "arg": [mname, list(spec), flux, rname], "bc": bc, "perm": list(perm)})
    return res


def shard_driver(block):
    res = core.Res()
    for cfg in block:
        for s, w, i in eval_driver(cfg, res):
            res.violation(s, w, {"kind": "driver", "cfg": [cfg[0], cfg[1], cfg[2], list(cfg[3]), list(cfg[4])]})
    res.sample({"integrator": block[0][0], "model": block[0][1], "data_letters": list(block[0][3]), "widths": list(block[0][4])}, cap=1)
    return res


def run(ctx):
    th = ctx.thorough
    cfgs = []
    for g in [1.4, 1.05, 5.0 / 3.0, 2.0]:
        cfgs.append(("euler1d", g, {"tier": ctx.tier}))
        cfgs.append(("nozzle", g, {"tier": ctx.tier}))
        grids = [(3, 2, 1.0, 1.0), (2, 5, 3.0, 0.5), (1, 1, 0.1, 7.0), (7, 7, 1.0, 2.0)]
        for a in range(8):
            cfgs.append(("euler2d", g, {"angle": a * np.pi / 4, "grids": grids}))
    for g in (9.81, 1.0, 10.0):
        cfgs.append(("shallowwater", g, {}))
    for a in (1.5, -1.5, 1e-3, -1e3):
        cfgs.append(("convection", a, {}))
    cfgs.append(("burgers", None, {}))
    # the same on meshes at an unusual absolute scale and with nearly equal cells
    for mode in ("tiny", "near"):
        cfgs += [("euler1d", 1.4, {"tier": "quick", "widths": mode}), ("nozzle", 5.0 / 3.0, {"tier": "quick", "widths": mode}),
                 ("shallowwater", 9.81, {"widths": mode}), ("convection", -1.5, {"widths": mode}), ("burgers", None, {"widths": mode})]
    ctx.pmap("pointwise", shard_point, cfgs)
    ctx.pmap("integer-typed-data", shard_int, [("euler1d", 1.4), ("euler1d", 5.0 / 3.0), ("shallowwater", 9.81), ("shallowwater", 1.0), ("convection", -1.5), ("burgers", None)])
    loc = []
    for kind, par in (("euler1d", 1.4), ("shallowwater", 9.81), ("convection", -1.5), ("burgers", None)):
        for n in ((1, 2, 3, 4) if th else (1, 2, 3)):
            for wv in itertools.product((0.5, 2.0), repeat=n):
                loc.append((kind, par, wv))
    ctx.pmap("locality", shard_local, loc)
    drv = []
    for iname in space.integrators():
        for kind, par in (("euler1d", 1.4), ("shallowwater", 9.81), ("burgers", None), ("convection", -1.5)):
            block = []
            for wv in ((1.0, 1.0, 1.0), (0.5, 2.0, 1.0)):
                for idx in itertools.product(range(4), repeat=3):
                    if not th and len(set(idx)) == 1 and wv[0] == 1.0 and wv[1] == 1.0:
                        pass
                    block.append((iname, kind, par, idx, wv))
            drv.append(block if th else block[::3])
    ctx.pmap("driver", shard_driver, drv)
    ctx.pmap("driver-solve_legacy", shard_legacy, [("euler1d", 1.4), ("shallowwater", 9.81), ("burgers", None)])
    ctx.pmap("implicit-classes-with-local-steps", shard_implicit_local, [("euler1d", ("euler1d", 1.4), "hllc", "extrapol1"), ("euler1d", ("euler1d", 1.4), "hlle", "muscl:vanleer"),
                                                                         ("shallowwater", ("shallowwater", 9.81), "hll", "extrapol1"), ("burgers", ("burgers",), None, "extrapol2")])


def replay(case):
    k = case["kind"]
    if k == "point":
        cfg = tuple(case["cfg"])
        return [(s, w) for s, w, i in eval_pointwise(cfg) if i == case["index"]]
    if k == "legacy":
        c = case["cfg"]
        return [(s, w) for s, w, i in eval_legacy(c[0], c[1], tuple(c[2]), tuple(c[3]))]
    if k == "impl":
        from . import c06
        a = case["arg"]
        v = c06.check_nonlinear_steps(a[0], tuple(a[1]), a[2], a[3], case["bc"], tuple(case["perm"]), None, modes=("array",))
        return [(s.replace("C06/nonlinear/", "C18/implicit-local-step/"), w) for s, w in v]
    if k == "int":
        return [(s, w) for s, w, i in eval_int(case["cfg"][0], case["cfg"][1])]
    if k == "local":
        c = case["cfg"]
        return [(s, w) for s, w, i in eval_locality((c[0], c[1], tuple(c[2])))]
    c = case["cfg"]
    return [(s, w) for s, w, i in eval_driver((c[0], c[1], c[2], tuple(c[3]), tuple(c[4])))]
