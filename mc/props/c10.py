"""C10 - first-order Riemann-flux schemes keep density, pressure and depth positive.

Shape C: all 3-windows over a strong alphabet (ratios 1e6, Mach/Froude up to 3,
closed under u -> -u so that wall windows (mirror(a), a, b) are included) packed
into one periodic mesh; one real forward-Euler step at the window's CFL step.
Shape A: BFS depth 3 over real step() calls of the SSP integrators from every
assignment of a strong alphabet on 3-4 cells, periodic and wall boundaries.
"""
import itertools

import numpy as np

from .. import core, pack, space

ID = "C10"
LEVEL = "model_checking"
RULE = ("windows: all 3-windows over rho x Mach x p = {1,1e-3,1e3,0.3} x {0,+-1/2,+-1,+-2,+-3} x {1,1e-3,1e3,0.3} (144 states, 2 985 984 windows) for "
        "euler hlle/hllc and h x Froude (36 states) for shallow-water rusanov/hll, forward Euler at window CFL {1/2,1/4}; BFS: every assignment of a "
        "6-letter strong alphabet to 3 (thorough 4) cells x {periodic, sym} x {explicit, rk2_heun, rk3ssp} x CFL {1/2,1/4} x fluxes, depth 3. "
        "non-trivial = non-uniform window/data")
ASSUMPTIONS = ["cell states between alphabet letters are not explored (the BFS reaches non-alphabet states after the first step)",
               "the window CFL step is the minimum of the model's own calc_timestep over the window: the largest global step any mesh containing it can take"]
EPS = np.finfo(float).eps
SSP = ["explicit", "rk2_heun", "rk3ssp"]


DEFAULT = {"euler1d": 1.4, "shallowwater": 9.81}      # gamma / g


def euler_letters(tier, gam=1.4):
    rs = [1.0, 1e-3, 1e3, 0.3]
    ms = [0.0, 0.5, -0.5, 1.0, -1.0, 2.0, -2.0, 3.0, -3.0] if tier == "thorough" else [0.0, 0.5, -0.5, 1.0, -1.0, 3.0, -3.0]
    out = []
    for r, m, p in itertools.product(rs, ms, rs):
        rr, u, pp = space.euler_state(r, m, p, gam)
        out.append((rr, rr * u, pp / (gam - 1.0) + 0.5 * rr * u * u))
    return np.array(out)


def sw_letters(tier, g=9.81):
    hs = [1.0, 1e-3, 1e3, 0.3]
    fr = [0.0, 0.5, -0.5, 1.0, -1.0, 2.0, -2.0, 3.0, -3.0]
    out = []
    for h, f in itertools.product(hs, fr):
        hh, u = space.sw_state(h, f, g)
        out.append((hh, hh * u))
    return np.array(out)


def build(kind, flux, mesh, bc="per", par=None):
    par = DEFAULT[kind] if par is None else par
    spec = ("euler1d", par) if kind == "euler1d" else ("shallowwater", par)
    return space.build_1d(spec, flux, "extrapol1", mesh, bc, bc)


def positive(kind, data, par=None):
    if kind == "euler1d":
        gam = DEFAULT[kind] if par is None else par
        rho, m, E = data
        with np.errstate(all="ignore"):
            p = (gam - 1.0) * (E - 0.5 * m * m / rho)
        return np.isfinite(rho) & np.isfinite(m) & np.isfinite(E) & (rho > 0) & (p > 0)
    h, q = data
    return np.isfinite(h) & np.isfinite(q) & (h > 0)


def check_windows(kind, flux, cfl, tier, lo, hi, res=None, par=None):
    par = DEFAULT[kind] if par is None else par
    A = euler_letters(tier, par) if kind == "euler1d" else sw_letters(tier, par)
    k = A.shape[0]
    W = pack.windows(k, 3, lo, hi)
    n = W.shape[0]
    cells = A[W.ravel()]            # (3n, neq)
    mesh = space.mesh1.unimesh(ncell=3 * n, length=3.0 * n)
    model, disc = build(kind, flux, mesh, par=par)
    f = space.field.fdata(model, mesh, [cells[:, q].copy() for q in range(model.neq)])
    with np.errstate(all="ignore"):
        dt = pack.window_min(np.asarray(disc.calc_timestep(f, cfl), float), 3)
        space.integ.explicit(mesh, disc).step(f, dt)
    c = pack.centres(n, 3)
    ok = positive(kind, [d[c] for d in f.data], par)
    out = []
    if res is not None:
        res.evals += n
        res.nontrivial += int(np.sum((W[:, 0] != W[:, 1]) | (W[:, 1] != W[:, 2])))
        if kind == "euler1d":
            rho0 = cells[:, 0].reshape(n, 3)
            res.census["windows/density-ratio>=1e3"] += int(np.sum(rho0.max(1) / rho0.min(1) >= 1e3))
            res.census["windows/new-density-below-old-window-min"] += int(np.sum(f.data[0][c] < rho0.min(1)))
    for i in np.flatnonzero(~ok)[:20]:
        out.append(("C10/window/%s/%s/cfl=%g" % (kind, flux, cfl), "%s(%g) %s CFL %g window (conservative) %r: centre becomes %r" % (
            kind, par, flux, cfl, cells.reshape(n, 3, -1)[i].tolist(), [float(d[c[i]]) for d in f.data]), int(lo + i)))
    return out


def shard_windows(arg):
    kind, flux, cfl, tier, lo, hi = arg[:6]
    par = arg[6] if len(arg) > 6 else None
    res = core.Res()
    step = 150000
    for a in range(lo, hi, step):
        for s, w, j in check_windows(kind, flux, cfl, tier, a, min(hi, a + step), res, par):
            res.violation(s, w, {"kind": "window", "model": kind, "flux": flux, "cfl": cfl, "tier": tier, "index": j, "par": par})
    res.sample({"model": kind, "flux": flux, "cfl": cfl, "window_number": lo}, cap=1)
    return res


STRONG_E = [(1.0, 0.0, 1.0), (1e-3, 1.0, 1e-3), (1e3, -0.5, 1.0), (1.0, 3.0, 1e3), (0.3, -3.0, 0.3), (1e3, 0.5, 1e3)]
STRONG_H = [(1.0, 0.0), (1e-3, 1.0), (1e3, -0.5), (0.3, 3.0), (1.0, -3.0), (1e3, 2.0)]


def bfs(kind, flux, iname, cfl, bc, idx, depth, res=None, par=None):
    par = DEFAULT[kind] if par is None else par
    if kind == "euler1d":
        al = []
        for r, m, p in STRONG_E:
            rr, u, pp = space.euler_state(r, m, p, par)
            al.append(np.array([rr, rr * u, pp / (par - 1.0) + 0.5 * rr * u * u]))
    else:
        al = [np.array([h, h * space.sw_state(h, f, par)[1]]) for h, f in STRONG_H]
    n = len(idx)
    mesh = space.mesh1.unimesh(ncell=n, length=float(n))
    model, disc = build(kind, flux, mesh, bc, par)
    f = space.field_from_letters(model, mesh, al, idx)
    solver = space.integrators()[iname](mesh, disc)
    out = []
    for d in range(depth):
        with np.errstate(all="ignore"):
            dt = float(np.min(disc.calc_timestep(f, cfl)))
            solver.step(f, dt)
        if res is not None:
            res.transitions += 1
            res.evals += 1
            res.states.add(hash(tuple(x.tobytes() for x in f.data)))
        if not np.all(positive(kind, f.data, par)):
            out.append(("C10/bfs/%s/%s/%s/%s/cfl=%g" % (kind, flux, iname, bc, cfl), "%s %s %s %s CFL %g data letters %r: after step %d the state is %r"
                        % (kind, flux, iname, bc, cfl, idx, d + 1, [x.tolist() for x in f.data])))
            break
    return out


def drivers(kind, flux, iname, cfl, bc, idx, res=None, par=None):
    """the same scheme run by the library's drivers over many steps: solve (stop after 60 iterations, one snapshot inside) and the legacy driver
    solve_legacy (two save times, 8 and 60 initial steps away), on 20 cells (two blocks of 10, all ordered pairs of 7 letters): every returned state is positive and finite"""
    par = DEFAULT[kind] if par is None else par
    if kind == "euler1d":
        al = []
        for r, m, p in STRONG_E + [(1e3, 0.0, 1e3)]:          # + dense hot gas at rest: the strongest acceleration of its neighbours
            rr, u, pp = space.euler_state(r, m, p, par)
            al.append(np.array([rr, rr * u, pp / (par - 1.0) + 0.5 * rr * u * u]))
    else:
        al = [np.array([h, h * space.sw_state(h, f, par)[1]]) for h, f in STRONG_H + [(1e3, 0.0)]]
    BLK = 10                                 # every letter fills a block of 10 cells: waves have room to accelerate the flow
    idx_cells = tuple(i for i in idx for _ in range(BLK))
    n = len(idx_cells)
    mesh = space.mesh1.unimesh(ncell=n, length=float(n))
    out = []
    for entry in ("solve", "solve_legacy"):
        model, disc = build(kind, flux, mesh, bc, par)
        f = space.field_from_letters(model, mesh, al, idx_cells)
        solver = space.integrators()[iname](mesh, disc)
        with np.errstate(all="ignore"):
            dt0 = float(np.min(disc.calc_timestep(f, cfl)))
            try:
                with core.time_limit(4.0):      # the legacy driver never returns once its time step is NaN: a short horizon, reported
                    if entry == "solve":
                        got = list(solver.solve(f, cfl, [8.3 * dt0], stop={"maxit": 60, "tottime": 1e30}).solutions) + list(solver.solve(f, cfl, stop={"maxit": 60}).solutions)
                    else:
                        got = list(solver.solve_legacy(f, cfl, [8.3 * dt0, 60.6 * dt0]))
            except core.CallTimeout:
                out.append(("C10/driver/%s/%s/%s/%s/%s/non-termination" % (entry, kind, flux, iname, bc), "%s %s %s %s CFL %g data letters %r: %s did not return" % (kind, flux, iname, bc, cfl, idx, entry)))
                continue
        if res is not None:
            res.transitions += 1
            res.evals += 1
        for j, g in enumerate(got):
            if not np.all(positive(kind, g.data, par)):
                out.append(("C10/driver/%s/%s/%s/%s/%s/cfl=%g" % (entry, kind, flux, iname, bc, cfl), "%s %s %s %s CFL %g data letters %r: state %d returned by %s (t=%r) is %r"
                            % (kind, flux, iname, bc, cfl, idx, j, entry, g.time, [x.tolist() for x in g.data])))
                break
    return out


STRONG_2D = [(1.0, 0.0, 0.0, 1.0), (1e3, 0.0, 0.0, 1e3), (1e-2, 1.5, -0.5, 1e-2), (1.0, -2.0, 2.0, 0.1)]       # rho, Mach_x, Mach_y, p


def drivers2d(iname, bcname, grid, idx, res=None):
    """2D Cartesian first-order HLLE with the library's own CFL step (1/2) on grids with elongated cells and domains: six iterations stay positive"""
    nx, ny, lx, ly = grid
    model = space.euler.euler2d()
    msh = space.mesh2.mesh2d(nx, ny, lx, ly)
    bcs = {t: {"type": bcname} for t in ("left", "right", "bottom", "top")}
    disc = space.modeldisc.fvm2d(model, msh, space.xnum.extrapol2d1(), bcs, numflux="hlle")
    P = np.array([STRONG_2D[i] for i in idx]).T
    c = np.sqrt(1.4 * P[3] / P[0])
    rho, u, v, p = P[0], P[1] * c, P[2] * c, P[3]
    q = [rho.copy(), np.array([rho * u, rho * v]), p / 0.4 + 0.5 * rho * (u * u + v * v)]
    f = space.field.fdata(model, msh, q)
    out = []
    try:
        with np.errstate(all="ignore"), core.time_limit(20.0):
            got = [space.integrators()[iname](msh, disc).solve(f, 0.5, stop={"maxit": k})[-1] for k in (1, 2, 6)]
    except core.CallTimeout:
        return [("C10/driver-2d/%s/%s/non-termination" % (iname, bcname), "grid %r data %r: solve did not return" % (grid, idx))]
    if res is not None:
        res.transitions += 3
        res.evals += 3
    for k, g in zip((1, 2, 6), got):
        r_ = np.asarray(g.data[0], float)
        m_ = np.asarray(g.data[1], float)
        pr = 0.4 * (np.asarray(g.data[2], float) - 0.5 * (m_[0] ** 2 + m_[1] ** 2) / r_)
        if not (np.all(np.isfinite(r_)) and np.all(np.isfinite(pr)) and np.all(r_ > 0) and np.all(pr > 0)):
            out.append(("C10/driver-2d/%s/%s" % (iname, bcname), "euler2d hlle first order %s boundaries %s grid %r CFL 0.5 data letters %r: after %d iterations min density %r, min pressure %r" % (
                iname, bcname, grid, idx, k, float(np.nanmin(r_)), float(np.nanmin(pr)))))
            break
    return out


def shard_drivers2d(arg):
    iname, bcname, grid = arg
    res = core.Res()
    for idx in space.pattern_assignments(grid[0] * grid[1], 4):
        if len(set(idx)) == 1:
            continue
        res.nontrivial += 1
        res.traces += 1
        for s, w in drivers2d(iname, bcname, grid, idx, res):
            res.violation(s, w, {"kind": "drv2d", "integrator": iname, "bc": bcname, "grid": list(grid), "idx": list(idx)})
    return res


def shard_drivers(arg):
    kind, flux, iname, cfl, bc, n = arg[:6]
    par = arg[6] if len(arg) > 6 else None
    res = core.Res()
    for idx in itertools.product(range(7), repeat=n):
        if len(set(idx)) == 1:
            continue
        res.nontrivial += 1
        res.traces += 1
        for s, w in drivers(kind, flux, iname, cfl, bc, idx, res, par):
            res.violation(s, w, {"kind": "drv", "model": kind, "flux": flux, "integrator": iname, "cfl": cfl, "bc": bc, "idx": list(idx), "par": par})
        if sum(n_ for k_, n_ in res.nviol.items() if k_.endswith("/non-termination")) >= 3:
            res.census["shard-abandoned-after-non-terminating-calls"] += 1      # each costs its horizon; three are enough to report
            break
    return res


def shard_bfs(arg):
    kind, flux, iname, cfl, bc, n, depth = arg[:7]
    par = arg[7] if len(arg) > 7 else None
    res = core.Res()
    for idx in itertools.product(range(6), repeat=n):
        if len(set(idx)) == 1 and bc == "per":
            continue
        res.nontrivial += 1
        res.traces += 1
        for s, w in bfs(kind, flux, iname, cfl, bc, idx, depth, res, par):
            res.violation(s, w, {"kind": "bfs", "model": kind, "flux": flux, "integrator": iname, "cfl": cfl, "bc": bc, "idx": list(idx), "depth": depth, "par": par})
    res.sample({"model": kind, "flux": flux, "integrator": iname, "cfl": cfl, "bc": bc, "data_letters": [1, 2, 3][:n], "ops": ["step"] * depth}, cap=1)
    return res


def run(ctx):
    th = ctx.thorough
    cfg = []
    for kind, fluxes, nlet in (("euler1d", ("hlle", "hllc"), len(euler_letters(ctx.tier))), ("shallowwater", ("rusanov", "hll"), len(sw_letters(ctx.tier)))):
        tot = nlet ** 3
        nchunk = 16 if kind == "euler1d" else 1
        for flux in fluxes:
            for cfl in (0.5, 0.25):
                for c in range(nchunk):
                    cfg.append((kind, flux, cfl, ctx.tier, tot * c // nchunk, tot * (c + 1) // nchunk))
    # secondary parameters: another gamma (monatomic gas; thorough also 1.1 and 2) and another g, on the quick alphabet
    for kind, fluxes, pars in (("euler1d", ("hlle", "hllc"), (5.0 / 3.0,) + ((1.1, 2.0) if th else ())), ("shallowwater", ("rusanov", "hll"), (1.0,) + ((30.0,) if th else ()))):
        for par in pars:
            nlet = len(euler_letters("quick", par)) if kind == "euler1d" else len(sw_letters("quick", par))
            tot = nlet ** 3
            nchunk = 8 if kind == "euler1d" else 1
            for flux in fluxes:
                for c in range(nchunk):
                    cfg.append((kind, flux, 0.5, "quick", tot * c // nchunk, tot * (c + 1) // nchunk, par))
    ctx.pmap("packed-windows", shard_windows, cfg)
    cfg2 = []
    for kind, fluxes in (("euler1d", ("hlle", "hllc")), ("shallowwater", ("rusanov", "hll"))):
        for flux in fluxes:
            for iname in SSP:
                for cfl in (0.5, 0.25):
                    for bc in ("per", "sym"):
                        for n in ((2, 3, 4) if th else (2, 3)):
                            cfg2.append((kind, flux, iname, cfl, bc, n, 3))
    for kind, fluxes, par in (("euler1d", ("hlle", "hllc"), 5.0 / 3.0), ("shallowwater", ("rusanov", "hll"), 1.0)):
        for flux in fluxes:
            for iname in SSP:
                cfg2.append((kind, flux, iname, 0.5, "sym", 3, 3, par))
    cfg2.sort(key=lambda c: -c[5])
    ctx.pmap("bfs-ssp", shard_bfs, cfg2)
    cfg3 = [(kind, flux, iname, 0.5, bc, 2) for kind, fluxes in (("euler1d", ("hlle", "hllc")), ("shallowwater", ("rusanov", "hll"))) for flux in fluxes
            for iname in SSP for bc in ("per", "sym")]
    ctx.pmap("drivers-solve-and-solve_legacy", shard_drivers, cfg3)
    ctx.pmap("drivers-2d", shard_drivers2d, [(iname, bc, g) for iname in SSP for bc in ("per", "sym") for g in ((2, 6, 6.0, 1.0), (6, 2, 1.0, 6.0), (3, 3, 1.0, 1.0), (4, 2, 1.0, 1.0))])


def replay(case):
    if case.get("kind") == "drv2d":
        return drivers2d(case["integrator"], case["bc"], tuple(case["grid"]), tuple(case["idx"]))
    if case.get("kind") == "drv":
        return drivers(case["model"], case["flux"], case["integrator"], case["cfl"], case["bc"], tuple(case["idx"]), None, case.get("par"))
    if case["kind"] == "window":
        j = case["index"]
        return [(s, w) for s, w, _ in check_windows(case["model"], case["flux"], case["cfl"], case["tier"], j, j + 1, None, case.get("par"))]
    return bfs(case["model"], case["flux"], case["integrator"], case["cfl"], case["bc"], tuple(case["idx"]), case["depth"], None, case.get("par"))
