"""C07 - time bookkeeping: steps advance by dt, snapshots land on requested times.

Shape A: explicit-state exploration of the real solve/restart driver.  Alphabet =
integrator class x system x start time x save-time list x stop dictionary
(x a second restart operation from every returned snapshot).  The oracle is the
property itself evaluated on a reference trajectory produced by a plain loop
around the real step().
"""
import itertools

import numpy as np

from .. import core, space

ID = "C07"
LEVEL = "model_checking"
RULE = ("histories: op1 = solve(f0, save list, stop) for every strictly increasing save list of length <= L over 8 ticks "
        "(start time, inside one step twice/thrice, step boundaries, before the start, beyond the stop) x 10 stop dictionaries x 2 start times "
        "x every integrator class x 3 systems (exactly representable and state-dependent steps); op2 = restart from every snapshot returned by a "
        "reduced set of op1; step level: every class x 5 dt shapes x first/second step. non-trivial = at least one save time strictly inside a step")
ASSUMPTIONS = ["all time comparisons of the oracle are tolerant to 4 ulp: a save time that close to a step boundary or to the stop time makes both outcomes acceptable",
               "snapshot values of the multistep 'gear' are only checked for stamp, count and finiteness (a side step of a multistep scheme has no one-step reference)",
               "implicit classes on the linear system may reuse a cached Jacobian: their snapshot values are compared to 1e-6 relative"]
EPS = np.finfo(float).eps
CFL = 0.5
HORIZON = 3.0      # seconds allowed to one solve/restart call (they take 1-50 ms); a call that exceeds it is reported
MAX_TIMEOUTS = 3   # a shard stops exploring after that many non-terminating calls (each costs HORIZON)
LATE = float(2 ** 27)
TICKS = [0.0, 0.25, 0.375, 0.5, 0.75, 1.0, 1.25, 2.0]


def close(a, b, k=4):
    return abs(a - b) <= k * EPS * max(abs(a), abs(b), 1e-300)


# ---------------------------------------------------------------------------
_SYS = {}


def system(name):
    # (model, mesh, discretisation) are shared by the histories of one worker: C07 judges every history against a reference trajectory of real
    # steps on the same discretisation; hidden state across calls is the subject of C08, which builds fresh objects per history
    if name in _SYS:
        return _SYS[name]
    if name == "conv8":
        model = space.convection.model(1.0)
        m = space.mesh1.unimesh(ncell=8, length=8.0)
        disc = space.modeldisc.fvm(model, m, space.xnum.extrapol1())
        q0 = [np.array([0, 1, 2, 3, 2, 1, 0, -1.0])]
    elif name == "burgers4":
        model = space.burgers.model()
        m = space.mesh1.unimesh(ncell=4, length=4.0)
        disc = space.modeldisc.fvm(model, m, space.xnum.muscl(space.xnum.minmod))
        q0 = [np.array([1.0, 2.0, 0.5, 1.5])]
    elif name == "euler4":
        model = space.euler.euler1d()
        m = space.mesh1.unimesh(ncell=4, length=1.0)
        disc = space.modeldisc.fvm(model, m, space.xnum.extrapol1(), numflux="hllc")
        q0 = model.prim2cons([np.array([1.0, 1.2, 0.9, 1.0]), np.array([0.1, 0.3, -0.1, 0.2]), np.array([1.0, 1.1, 1.0, 0.8])])
    else:
        raise KeyError(name)
    _SYS[name] = (model, m, disc, q0)
    return _SYS[name]


def reftraj(cls, sysname, f0, kmax, cfl=CFL):
    model, m, disc, _ = system(sysname)
    s = cls(m, disc)
    Q, dts = [f0.copy()], []
    for _ in range(kmax):
        f = Q[-1].copy()
        with np.errstate(all="ignore"):
            dt = float(min(disc.calc_timestep(f, cfl)))
            s.step(f, dt)
        Q.append(f)
        dts.append(dt)
    return Q, dts


def same_bits(a, b):
    return all(np.array_equal(x, y, equal_nan=True) for x, y in zip(a.data, b.data))


def dist(a, b):
    sc = max(np.abs(y).max() for y in b.data) + 1e-300
    return max(np.abs(x - y).max() for x, y in zip(a.data, b.data)) / sc


def stop_count(Q, crit, k0=0):
    """acceptable iteration counts: first k meeting a criterion, evaluated with a 4-ulp band on times"""
    out = set()
    for sgn in (-1, 1):
        for k in range(len(Q)):
            t = Q[k].time
            hit = ("maxit" in crit and k >= crit["maxit"])
            if "tottime" in crit:
                T = crit["tottime"]
                hit = hit or (t >= T - sgn * 4 * EPS * max(abs(T), abs(t)))
            if hit:
                out.add(k)
                break
    return out


def judge_run(cls, sysname, t0, f0, S, stop, op, solver, res, traj=None, it0=0, cfl=CFL, as_array=False, stop_obj=None, same_object=False):
    """run one solve/restart and evaluate the property; returns (violations, returned list)"""
    name = cls.__name__
    gear = space.is_multistep(cls)
    impl = space.is_implicit(cls)
    model, m, disc, _ = system(sysname)
    crit = {}
    if S:
        crit["tottime"] = S[-1]
    if stop:
        crit.update(stop)
    Q, dts = traj
    Ns = stop_count(Q, crit)
    bad = []
    # same_object: the caller hands over the very field object an earlier call returned (the usual way to restart), not a copy of it
    fcall = f0 if same_object else f0.copy()
    before = ([d.copy() for d in fcall.data], fcall.time, fcall.it)
    # the dictionary object handed to the code may be one the caller reuses for many calls (stop_obj); the oracle works on a pristine copy
    given = stop_obj if stop_obj is not None else (dict(stop) if stop is not None else None)
    # ways of calling: the same request written as different users would write it (as_array: True/False or a style number 0..5)
    style = {False: 0, True: 1}.get(as_array, as_array)
    ts_given = np.array(S, float) if style == 1 else tuple(S) if style == 2 else list(S)
    try:
        with np.errstate(all="ignore"), core.time_limit(HORIZON):
            if not S and style in (0, 3):
                out = getattr(solver, op)(fcall, cfl, stop=given)                       # no save times: the argument is left to its default
            elif style == 3:
                out = getattr(solver, op)(stop=given, tsave=ts_given, condition=cfl, f=fcall)
            elif style == 4:
                out = getattr(solver, op)(fcall, np.float64(cfl), ts_given, given)
            elif style == 5:
                out = getattr(solver, op)(fcall, cfl, ts_given, stop=given, flush=None, monitors={}, directives={})
            else:
                out = getattr(solver, op)(fcall, cfl, ts_given, stop=given)
    except core.CallTimeout as e:
        return [("non-termination", "%s did not return within its horizon (a problem of at most 5 iterations): the stop criteria were never met" % op)], None
    except Exception as e:      # the driver must not raise on a valid request
        return [("exception", "%s raised %r" % (op, e))], None
    if res is not None:
        res.transitions += 1
        res.traces += 1
    snaps = list(out.solutions) if hasattr(out, "solutions") else list(out)
    if given is not None and given != stop:
        bad.append(("caller-arguments-modified", "the stop dictionary passed to %s was changed from %r to %r" % (op, stop, given)))
    if list(np.asarray(ts_given, float)) != [float(x) for x in S]:
        bad.append(("caller-arguments-modified", "the save-time list passed to %s was changed from %r to %r" % (op, list(S), list(ts_given))))
    N = solver.nit()
    if N not in Ns:
        bad.append(("iteration-count", "nit()=%d, the first step meeting a stop criterion is %s (stop %r)" % (N, sorted(Ns), crit)))
        N = min(Ns) if Ns else 0
    if solver.totnit() != it0 + solver.nit():
        bad.append(("cumulative-count", "totnit()=%d, start count %d + nit %d" % (solver.totnit(), it0, solver.nit())))
    tN = Q[N].time
    if not (all(np.array_equal(a, b) for a, b in zip(fcall.data, before[0])) and fcall.time == before[1] and fcall.it == before[2]):
        bad.append(("caller-field-modified", "the field passed to %s was changed" % op))
    # which snapshots are requested ones?
    final_only = (not S) or (len(snaps) == 1 and not any(close(snaps[0].time, s) for s in S))
    served = [] if final_only else snaps
    traj_finite = all(np.all(np.isfinite(d)) for k in range(N + 1) for d in Q[k].data)
    if final_only:
        if len(snaps) != 1:
            bad.append(("final-state-returned", "%d fields returned without any served save time" % len(snaps)))
        elif traj_finite:
            if not close(snaps[0].time, tN, 8):
                bad.append(("final-state-time", "final field at t=%r, trajectory reaches %r after %d steps" % (snaps[0].time, tN, N)))
            elif not same_bits(snaps[0], Q[N]) and not (dist(snaps[0], Q[N]) <= (1e-6 if impl else 64 * EPS)):
                bad.append(("final-state-value", "final field differs from Q_N by %.3g" % dist(snaps[0], Q[N])))
    matched = []
    for g in served:
        c = [s for s in S if close(g.time, s)]
        if not c:
            bad.append(("stamp", "snapshot stamped %r is none of the requested times %r" % (g.time, list(S))))
            continue
        matched.append(c[0])
    if matched != sorted(set(matched)):
        bad.append(("order-or-duplicate", "snapshots for %r" % matched))
    tol = lambda x: 4 * EPS * max(abs(x), 1e-300)
    Tstop = min(crit.get("tottime", np.inf), tN)
    required = [s for s in S if (s == t0 or s > t0 + tol(t0)) and s < Tstop - tol(Tstop)]
    required += [s for s in S if (s == t0 or s > t0 + tol(t0)) and abs(s - Tstop) <= tol(Tstop) and "maxit" not in crit and s <= Tstop]

    def reachable(s):
        if abs(s - t0) <= tol(t0):
            return True
        return any(Q[k].time - tol(s) <= s <= Q[k].time + dts[k] + tol(s) for k in range(N))
    for s in required:
        if s not in matched and reachable(s):
            bad.append(("missing-snapshot", "no snapshot for save time %r in [start %r, stop %r]" % (s, t0, Tstop)))
    for s in matched:
        if not reachable(s):
            bad.append(("unreachable-snapshot", "snapshot at %r, but no step of the trajectory (N=%d, t_N=%r) covers it" % (s, N, tN)))
    for g, s in zip(served, matched):
        if not traj_finite:
            break
        if not all(np.all(np.isfinite(d)) for d in g.data):
            bad.append(("non-finite-snapshot", "snapshot at %r is not finite although the trajectory is" % s))
            continue
        if gear:
            if abs(s - t0) <= tol(t0) and not same_bits(g, Q[0]):
                bad.append(("start-time-snapshot-is-initial-state", "gear: snapshot at the start time differs from the initial field"))
            continue
        ok = False
        best = np.inf
        for k in range(N + 1 if N < len(dts) else N):
            if not (Q[k].time - tol(s) <= s <= Q[k].time + dts[k] + tol(s)):
                continue
            if abs(s - Q[k].time) <= tol(s):
                d = 0.0 if same_bits(g, Q[k]) else dist(g, Q[k])
                best = min(best, d)
                ok = ok or d <= 64 * EPS
            h = s - Q[k].time
            if h > 0:
                c = Q[k].copy()
                with np.errstate(all="ignore"):
                    cls(m, disc).step(c, h)
                if all(np.all(np.isfinite(d_)) for d_ in c.data):
                    d = 0.0 if same_bits(g, c) else dist(g, c)
                    best = min(best, d)
                    ok = ok or d <= (1e-6 if impl else 64 * EPS)
        if res is not None and np.isfinite(best):
            res.worst("snapshot-vs-forward-step/" + ("implicit" if impl else "explicit"), best)
        if not ok:
            bad.append(("snapshot-value", "snapshot at %r is not a forward step (<= one CFL step) from any trajectory state (best distance %.3g)" % (s, best)))
    return bad, snaps


def letters_of(sysname, t0, ticks, cfl=CFL):
    """save times: conv8 has dt = 1/2 exactly, ticks are absolute offsets; otherwise in units of twice the first step"""
    model, m, disc, q0 = system(sysname)
    if sysname == "conv8" and cfl == 0.5:
        unit = 1.0
    else:
        f = space.field.fdata(model, m, [d.copy() for d in q0], t=t0)
        unit = 2.0 * float(min(disc.calc_timestep(f, cfl)))
    off = 0.0 if t0 == 0.0 else t0 - 0.25 * unit      # for a later start the first letter lies before the start
    return [off + x * unit for x in ticks], unit


def stops_of(vals, unit, t0):
    base = 0.0 if t0 == 0.0 else t0 - 0.25 * unit
    return [None, {"tottime": base + 0.75 * unit}, {"tottime": base + 1.0 * unit}, {"tottime": base + 1.2 * unit},
            {"maxit": 1}, {"maxit": 2}, {"maxit": 3}, {"maxit": 2, "tottime": base + 1.0 * unit},
            {"maxit": 1, "tottime": base + 2.0 * unit}, {"maxit": 5, "tottime": base + 0.5 * unit}]


def enum_lists(tier):
    L = 3 if tier == "quick" else 5
    idx = range(len(TICKS))
    out = [()]
    for k in range(1, L + 1):
        combos = list(itertools.combinations(idx, k))
        if tier == "quick" and k == 3:
            combos = [c for c in combos if c[2] - c[0] <= 4]      # triples spanning at most ~2 steps (the dense ones)
        out += combos
    return out


def history_site(name, rule, S, t0, Q, dts):
    """site = integrator family x rule x shape of the save list relative to the steps"""
    return "C07/%s/%s" % (name, rule)


def shard_solve(arg):
    iname, sysname, t0, tier = arg[:4]
    cfl = arg[4] if len(arg) > 4 else CFL
    as_array = arg[5] if len(arg) > 5 else False
    res = core.Res()
    cls = space.integrators()[iname]
    model, m, disc, q0 = system(sysname)
    f0 = space.field.fdata(model, m, [d.copy() for d in q0], t=t0)
    traj = reftraj(cls, sysname, f0, 14, cfl)
    vals, unit = letters_of(sysname, t0, TICKS, cfl)
    stops = stops_of(vals, unit, t0)
    shared = stops_of(vals, unit, t0)      # the dictionary objects actually handed to solve, reused for every history of the shard
    for combo in enum_lists(tier):
        S = [vals[i] for i in combo]
        for si, stop in enumerate(stops):
            if not S and stop is None:
                continue
            res.evals += 1
            inside = [s for s in S if any(traj[0][k].time + 1e-9 < s < traj[0][k].time + traj[1][k] - 1e-9 for k in range(6))]
            if inside:
                res.nontrivial += 1
            solver = cls(m, disc)
            style = as_array if as_array else (res.evals % 6)
            bad, snaps = judge_run(cls, sysname, t0, f0, S, stop, "solve", solver, res, traj, cfl=cfl, as_array=style, stop_obj=shared[si])
            if shared[si] != stop:
                shared[si] = dict(stop) if stop is not None else None       # reported once; later histories start from a clean dictionary again
            key = (iname, sysname, t0, tuple(combo), si)
            if snaps is not None:
                res.states.add(hash((key[0], key[1], tuple((g.time, g.it, tuple(d.tobytes() for d in g.data)) for g in snaps), solver.nit())))
                res.census["outcome/%d-snapshots" % len(snaps)] += 1
            for rule, what in bad:
                res.violation("C07/%s/%s" % (iname, rule), "%s on %s t0=%r save=%r stop=%r: %s" % (iname, sysname, t0, S, stop, what),
                              {"kind": "solve", "integrator": iname, "system": sysname, "t0": t0, "ticks": list(combo), "stop_index": si, "cfl": cfl, "as_array": style})
            if res.nviol["C07/%s/non-termination" % iname] >= MAX_TIMEOUTS:
                res.census["shard-abandoned-after-non-terminating-calls"] += 1
                return res
    res.sample({"integrator": iname, "system": sysname, "t0": t0, "ops": [["solve", {"save": [vals[1], vals[2], vals[4]], "stop": {"maxit": 2}}]]}, cap=1)
    return res


def shard_restart(arg):
    """depth 2: solve, then restart from every returned snapshot with a second (reduced) alphabet"""
    iname, sysname, tier = arg
    res = core.Res()
    cls = space.integrators()[iname]
    model, m, disc, q0 = system(sysname)
    t0 = 0.0
    f0 = space.field.fdata(model, m, [d.copy() for d in q0], t=t0)
    vals, unit = letters_of(sysname, t0, TICKS)
    first = [((1, 3), {"maxit": 2}), ((0, 2, 4), None), ((), {"maxit": 3}), ((5,), {"maxit": 1}), ((3, 5), {"tottime": 0.8 * unit})]
    ticks2 = [0.0, 0.125, 0.3, 0.5, 0.55, 1.0]
    lists2 = [()] + [c for k in (1, 2) for c in itertools.combinations(range(len(ticks2)), k)]
    stops2 = lambda t: [None, {"maxit": 1}, {"maxit": 2}, {"tottime": t + 0.6 * unit}]
    for combo, stop in first:
        S = [vals[i] for i in combo]
        solver = cls(m, disc)
        try:
            with np.errstate(all="ignore"), core.time_limit(HORIZON):
                out = solver.solve(f0.copy(), CFL, list(S), stop=stop)
        except Exception as e:
            res.violation("C07/%s/restart/first-solve-failed" % iname, "%s on %s: solve(save=%r, stop=%r) raised %r" % (iname, sysname, S, stop, e),
                          {"kind": "restart", "integrator": iname, "system": sysname, "first": [list(combo), stop], "gi": 0, "c2": [], "stop2_index": 0})
            continue
        res.transitions += 1
        for gi, g in enumerate(out.solutions):
            if not all(np.all(np.isfinite(d)) for d in g.data):
                continue
            if space.is_multistep(cls):
                traj = reftraj(cls, sysname, g, 10)      # only times/counts are used for gear
            else:
                traj = reftraj(cls, sysname, g, 10)
            for c2 in lists2:
                S2 = [g.time + ticks2[i] * unit for i in c2]
                for s2i, stop2 in enumerate(stops2(g.time)):
                    if not S2 and stop2 is None:
                        continue
                    res.evals += 1
                    res.nontrivial += 1
                    # the same solver object continues (restart), rebuilt by replaying the prefix on a fresh object
                    sv = cls(m, disc)
                    with np.errstate(all="ignore"), core.time_limit(HORIZON):
                        o1 = sv.solve(f0.copy(), CFL, list(S), stop=stop)
                    g1 = o1.solutions[gi]
                    it0 = max(g1.it, 0)
                    if space.is_multistep(cls):
                        # times of a multistep trajectory after restart depend on its memory only through the state; steps are CFL steps of the states,
                        # so only counts and stamps are judged with a trajectory rebuilt on the continuing object
                        sv2 = cls(m, disc)
                        with np.errstate(all="ignore"), core.time_limit(HORIZON):
                            sv2.solve(f0.copy(), CFL, list(S), stop=stop)
                        Q, dts = [g1.copy()], []
                        for _ in range(10):
                            f = Q[-1].copy()
                            with np.errstate(all="ignore"):
                                dt = float(min(disc.calc_timestep(f, CFL)))
                                sv2.step(f, dt)
                            Q.append(f)
                            dts.append(dt)
                        trj = (Q, dts)
                    else:
                        trj = traj
                    bad, snaps = judge_run(cls, sysname, g1.time, g1, S2, stop2, "restart", sv, res, trj, it0=it0, same_object=True)
                    if snaps is not None:
                        res.states.add(hash((iname, sysname, "r", tuple((x.time, x.it, tuple(d.tobytes() for d in x.data)) for x in snaps), sv.totnit())))
                    if res.nviol["C07/%s/restart/non-termination" % iname] >= MAX_TIMEOUTS:
                        res.census["shard-abandoned-after-non-terminating-calls"] += 1
                        return res
                    for rule, what in bad:
                        res.violation("C07/%s/restart/%s" % (iname, rule), "%s on %s: solve(save=%r, stop=%r) then restart(snapshot %d, save=%r, stop=%r): %s"
                                      % (iname, sysname, S, stop, gi, S2, stop2, what),
                                      {"kind": "restart", "integrator": iname, "system": sysname, "first": [list(combo), stop], "gi": gi,
                                       "c2": list(c2), "stop2_index": s2i})
    res.sample({"integrator": iname, "system": sysname, "ops": [["solve", {"save_ticks": [1, 3], "stop": {"maxit": 2}}],
                                                                ["restart", {"from_snapshot": 0, "save_ticks": [1, 3], "stop": {"maxit": 1}}]]}, cap=1)
    return res


def eval_step(iname, sysname, dtspec, res=None):
    cls = space.integrators()[iname]
    model, m, disc, q0 = system(sysname)
    out = []
    n = m.ncell
    if dtspec == "array":
        dt = 0.01 * (1.0 + (np.arange(n) % 3))
    elif dtspec == "array2":
        dt = 0.013 * (3.0 - (np.arange(n) % 3))
    else:
        dt = float(dtspec)
    solver = cls(m, disc)
    f = space.field.fdata(model, m, [d.copy() for d in q0], t=0.375)
    dmin = float(np.min(dt))
    for nstep in (1, 2, 3):
        t_before = f.time
        with np.errstate(all="ignore"):
            solver.step(f, dt)
        if res is not None:
            res.transitions += 1
            res.evals += 1
            res.states.add(hash((iname, sysname, dtspec, nstep, f.time)))
        if not abs(f.time - (t_before + dmin)) <= 4 * EPS * max(abs(f.time), dmin):
            out.append(("C07/%s/step/time-advance/step%d" % (iname, min(nstep, 2)), "%s step %d with dt=%s: time %r -> %r, expected +%r" % (iname, nstep, dtspec, t_before, f.time, dmin)))
            break
    return out


def shard_step(arg):
    iname = arg
    res = core.Res()
    for sysname in ("conv8", "burgers4", "euler4"):
        for dtspec in ("0.125", "0.1", "3.0", "array", "array2", "1e-09"):
            res.nontrivial += 1
            for s, w in eval_step(iname, sysname, dtspec, res):
                res.violation(s, w, {"kind": "step", "integrator": iname, "system": sysname, "dt": dtspec})
    return res


def run(ctx):
    names = list(space.integrators())
    systems = ["conv8", "burgers4", "euler4"]
    ctx.pmap("step-time-advance", shard_step, names)
    # start times: 0, a generic one, and a very late one (2^27: one step is a few 1e-10 of the clock, still ~1e6 ulps of it)
    cfg = [(i, s, t0, ctx.tier) for i in names for s in systems for t0 in (0.0, 0.75, -3.25, LATE)]
    if ctx.thorough:
        # another CFL number (steps not exactly representable), save times handed over as a numpy array instead of a list
        cfg += [(i, s, t0, "quick", 0.3, True) for i in names for s in systems for t0 in (0.0, 0.75)]
    # implicit classes are ~20x slower: put them first so that the pool balances
    cfg.sort(key=lambda c: (not space.is_implicit(space.integrators()[c[0]]), c))
    ctx.pmap("solve-histories", shard_solve, cfg)
    cfg2 = [(i, s, ctx.tier) for i in names for s in (systems if ctx.thorough else ["conv8", "burgers4"])]
    cfg2.sort(key=lambda c: (not space.is_implicit(space.integrators()[c[0]]), c))
    ctx.pmap("solve-then-restart", shard_restart, cfg2)


def replay(case):
    k = case["kind"]
    iname = case["integrator"]
    cls = space.integrators()[iname]
    if k == "step":
        return eval_step(iname, case["system"], case["dt"])
    sysname = case["system"]
    model, m, disc, q0 = system(sysname)
    if k == "solve":
        t0 = case["t0"]
        cfl = case.get("cfl", CFL)
        f0 = space.field.fdata(model, m, [d.copy() for d in q0], t=t0)
        traj = reftraj(cls, sysname, f0, 14, cfl)
        vals, unit = letters_of(sysname, t0, TICKS, cfl)
        S = [vals[i] for i in case["ticks"]]
        stop = stops_of(vals, unit, t0)[case["stop_index"]]
        bad, _ = judge_run(cls, sysname, t0, f0, S, stop, "solve", cls(m, disc), None, traj, cfl=cfl, as_array=case.get("as_array", False))
        return [("C07/%s/%s" % (iname, r), w) for r, w in bad]
    # restart: re-run the shard restricted to this case
    r = shard_restart((iname, sysname, "quick"))
    want = (case["first"], case["gi"], case["c2"], case["stop2_index"])
    out = []
    for v in r.viols:
        c = v["case"]
        if (c["first"], c["gi"], c["c2"], c["stop2_index"]) == (core.jsonable(want[0]), want[1], want[2], want[3]):
            out.append((v["site"], v["what"]))
    if not out:
        # not kept among the first records of its site: report any violation of the same site class
        out = [(v["site"], v["what"]) for v in r.viols]
    return out
