"""C17 - state conversions round-trip and named variables obey their definitions.

Pointwise exhaustive enumeration over a product alphabet of states (12 decades of
density/pressure, Mach 0..30, 8 flow directions in 2D) x gamma x model x every
name in list_var(), observed through field.phydata / prim2cons / cons2prim."""
import itertools

import numpy as np

from .. import core, space

ID = "C17"
LEVEL = "exploration"
RULE = ("every state of the product alphabet rho,p in 10^{-6,-4,..,6} x Mach {0,1e-6,+-0.3,+-1,+-3,+-30} (x 8 directions in 2D) "
        "x gamma x model x every registered variable name; non-trivial = moving state (Mach != 0); states are distinct by construction")
ASSUMPTIONS = ["states between alphabet letters are not explored",
               "round-off tolerance 32 eps x (1+gamma M^2) (pressure recovered from total energy loses that many digits)",
               "mach is compared in magnitude: the 1D model returns the signed u/a and the repository's own test_variables asserts asound*mach = velocity"]
EPS = np.finfo(float).eps
K = 32.0


def states(g, tier):
    ex = np.arange(-6, 7, 2.0) if tier == "quick" else np.arange(-6, 7, 1.0)
    rs = 10.0 ** ex
    ms = [0.0, 1e-6, 0.3, -0.3, 1.0, -1.0, 3.0, -3.0, 30.0, -30.0]
    R, M, P = [x.ravel() for x in np.meshgrid(rs, ms, rs, indexing="ij")]
    return R, M, P


def rel(a, b):
    return np.abs(a - b) / np.maximum(np.abs(b), 1e-300)


def evaluate(cfg, only=None, res=None):
    """cfg = (modelkind, gamma|g, extra); returns list of (site, what, index)"""
    kind, g, extra = cfg
    out = []

    def bad(name, rule, err, tolfac=1.0, mask=None):
        """err in units of eps*cond"""
        with np.errstate(all="ignore"):
            b = ~(err <= K * tolfac)
        if mask is not None:
            b &= mask
        if res is not None:
            res.evals += int(err.size)
            fe = np.where(np.isfinite(err), err, 0.0)
            res.worst("%s/%s/%s" % (kind, name, rule), (fe / tolfac).max() if np.ndim(tolfac) == 0 else (fe / tolfac).max())
        for i in np.flatnonzero(b)[:20]:
            if only is None or i == only:
                out.append(("C17/%s/%s/%s" % (kind, name, rule), "%s %s %s: error %.3g (x eps x cond), tolerance %g" % (kind, name, rule, err[i], K), int(i)))
        if only is not None and b[only] and not any(o[2] == only and o[0].endswith("%s/%s" % (name, rule)) for o in out):
            out.append(("C17/%s/%s/%s" % (kind, name, rule), "%s %s %s: error %.3g" % (kind, name, rule, err[only]), int(only)))

    if kind in ("euler1d", "nozzle", "euler2d"):
        R, M, P = states(g, extra.get("tier", "quick"))
        n = R.size
        gm = g - 1.0
        c = np.sqrt(g * P / R)
        cond = 1.0 + g * M * M
        if kind == "euler2d":
            ang = extra["angle"]
            U = np.array([M * c * np.cos(ang), M * c * np.sin(ang)])
            umag2 = (M * c) ** 2
            model = space.euler.euler2d(gamma=g)
            m = space.mesh2.mesh2d(n, 1, 1.0, 1.0)
            prim = [R.copy(), U.copy(), P.copy()]
        else:
            U = M * c
            umag2 = U * U
            model = space.euler.euler1d(gamma=g) if kind == "euler1d" else space.euler.nozzle(space.SECTION_LAWS[extra["law"]], gamma=g)
            m = space.mesh_spec(("uni", n, 2.0, 0.0))
            space.modeldisc.fvm(model, m, space.xnum.extrapol1())     # runs initdisc (nozzle needs the cell centres)
            prim = [R.copy(), U.copy(), P.copy()]
        prim_before = [np.asarray(x).copy() for x in prim]
        with np.errstate(all="ignore"):
            q = model.prim2cons(prim)
            qin = [np.asarray(x).copy() for x in q]
            qkeep = [x.copy() for x in qin]
            back = model.cons2prim(qin)
        if not all(np.array_equal(np.asarray(a), b) for a, b in zip(prim, prim_before)):
            out.append(("C17/%s/prim2cons/modifies-its-input" % kind, "prim2cons changed the primitive arrays it was given", only or 0))
        if not all(np.array_equal(a, b) for a, b in zip(qin, qkeep)):
            out.append(("C17/%s/cons2prim/modifies-its-input" % kind, "cons2prim changed the conservative arrays it was given", only or 0))
        # the same state handed over in other containers (tuple; 1D models: one stacked array): identical results, the container unchanged
        for cname, mk in (("tuple", tuple),) + ((("stacked-array", lambda xs: np.array([np.asarray(x, float) for x in xs])),) if kind != "euler2d" else ()):
            try:
                cq, cp = mk([x.copy() for x in qkeep]), mk([x.copy() for x in prim_before])
                with np.errstate(all="ignore"):
                    b2, q2 = model.cons2prim(cq), model.prim2cons(cp)
            except Exception as e:
                out.append(("C17/%s/container/%s/raises" % (kind, cname), "cons2prim/prim2cons raised %r for a state given as a %s" % (e, cname), only or 0))
                continue
            if not all(np.array_equal(np.asarray(a), np.asarray(b), equal_nan=True) for a, b in zip(b2, back)) or \
               not all(np.array_equal(np.asarray(a), np.asarray(b), equal_nan=True) for a, b in zip(q2, q)):
                out.append(("C17/%s/container/%s/differs" % (kind, cname), "cons2prim/prim2cons of a state given as a %s differ from the results for the same state as a list" % cname, only or 0))
            if not all(np.array_equal(np.asarray(a), b) for a, b in zip(cq, qkeep)) or not all(np.array_equal(np.asarray(a), b) for a, b in zip(cp, prim_before)):
                out.append(("C17/%s/container/%s/modifies-its-input" % (kind, cname), "cons2prim/prim2cons changed the %s they were given" % cname, only or 0))
        qref = [R, R * U, P / gm + 0.5 * R * umag2]
        for k, nm in enumerate(("density", "momentum", "energy")):
            sc = np.abs(qref[k]) if k != 1 else R * (np.abs(M) * c + 1e-300)
            e = np.abs(np.asarray(q[k]) - qref[k])
            if k == 1 and kind == "euler2d":
                e = np.sqrt((e ** 2).sum(0))
            bad("prim2cons", nm, e / np.maximum(sc, 1e-300) / EPS)
        bad("roundtrip", "density", rel(back[0], R) / EPS)
        eu = np.abs(np.asarray(back[1]) - U)
        if kind == "euler2d":
            eu = np.sqrt((eu ** 2).sum(0))
        bad("roundtrip", "velocity", eu / (np.abs(M) * c + 1e-300) / EPS)
        bad("roundtrip", "pressure", rel(back[2], P) / cond / EPS)
        f = space.field.fdata(model, m, [np.asarray(x).copy() for x in q])
        names = list(model.list_var())
        # reading a variable is an observation: it must not modify the field, and reading it again (in any order) gives the same value
        before = [np.asarray(d).copy() for d in f.data]
        first = {}
        for name in names:
            with np.errstate(all="ignore"):
                first[name] = np.array(f.phydata(name), copy=True)
            changed = [k for k, (a, b) in enumerate(zip(f.data, before)) if not np.array_equal(np.asarray(a), b, equal_nan=True)]
            if changed:
                out.append(("C17/%s/%s/modifies-the-field" % (kind, name), "%s: phydata(%r) changed component(s) %r of the field it was read from" % (kind, name, changed), only or 0))
                f = space.field.fdata(model, m, [b.copy() for b in before])
        for name in reversed(names):
            with np.errstate(all="ignore"):
                again = np.asarray(f.phydata(name))
            if again.shape != first[name].shape or not np.array_equal(again, first[name], equal_nan=True):
                out.append(("C17/%s/%s/second-reading-differs" % (kind, name), "%s: phydata(%r) read a second time (after the other variables) differs from the first reading" % (kind, name), only or 0))
        f = space.field.fdata(model, m, [b.copy() for b in before])
        H = g / gm * P / R + 0.5 * umag2
        sect = space.SECTION_LAWS[extra["law"]](m.centers()) if kind == "nozzle" else 1.0
        ref = {
            "density": (R, 1.0), "pressure": (P, cond), "velocitymag": (np.abs(M) * c, 1.0),
            "kinetic_energy": (0.5 * R * umag2, 1.0), "kinetic-energy": (0.5 * R * umag2, 1.0),
            "asound": (c, cond), "enthalpy": (g / gm * P / R, cond), "htot": (H, 1.0 + 0 * cond),
            "rttot": (gm / g * H, 1.0 + 0 * cond),
            "ptot": (P * (1.0 + 0.5 * gm * M * M) ** (g / gm), cond * (1.0 + g / gm)),
        }
        if kind == "euler2d":
            ref["velocity_x"] = (U[0], None)
            ref["velocity_y"] = (U[1], None)
        else:
            ref["massflow"] = (R * U * sect, 1.0)
        for name in names:
            with np.errstate(all="ignore"):
                v = np.asarray(f.phydata(name))
            vector = (kind == "euler2d" and name == "velocity")
            want = (2, n) if vector else (n,)
            if v.shape != want:
                out.append(("C17/%s/%s/shape" % (kind, name), "%s %s has shape %r, expected %r (one value per cell)" % (kind, name, v.shape, want), only or 0))
                continue
            if name == "velocity":
                e = np.abs(v - U)
                if vector:
                    e = np.sqrt((e ** 2).sum(0))
                bad(name, "definition", e / (np.abs(M) * c + 1e-300) / EPS)
            elif name == "mach":
                bad(name, "definition", np.abs(np.abs(v) - np.abs(M)) / np.maximum(np.abs(M), 1e-300) / cond / EPS)
            elif name == "entropy":
                sref = np.log(P / R ** g) / gm
                sc = (cond + np.abs(np.log(P)) + g * np.abs(np.log(R))) / gm
                bad(name, "definition", np.abs(v - sref) / sc / EPS)
            elif name in ("velocity_x", "velocity_y"):
                bad(name, "definition", np.abs(v - ref[name][0]) / (np.abs(M) * c + 1e-300) / EPS)
            elif name in ref:
                r, cf = ref[name]
                bad(name, "definition", np.where(r == 0, np.abs(v) / (R * c), rel(v, r)) / cf / EPS)
            else:
                if res is not None:
                    res.census["%s/unjudged-variable/%s" % (kind, name)] += 1
                continue
            # identities between the returned variables themselves (the way a user combines them)
        if res is not None:
            res.nontrivial += int(np.sum(M != 0))
            res.census["%s/variables" % kind] += len(names)
            res.census["%s/states" % kind] += n
    elif kind == "shallowwater":
        hs = 10.0 ** np.arange(-6, 7, 1.0)
        fr = np.array([0.0, 1e-6, 0.3, -0.3, 1.0, -1.0, 3.0, -3.0, 30.0, -30.0])
        H, F = [x.ravel() for x in np.meshgrid(hs, fr, indexing="ij")]
        c = np.sqrt(g * H)
        U = F * c
        n = H.size
        model = space.shallow.shallowwater1d(g=g)
        m = space.mesh_spec(("uni", n, 1.0, 0.0))
        q = model.prim2cons([H.copy(), U.copy()])
        back = model.cons2prim([np.asarray(x).copy() for x in q])
        bad("prim2cons", "depth", rel(q[0], H) / EPS)
        bad("prim2cons", "momentum", np.abs(q[1] - H * U) / (H * (np.abs(U) + 1e-300)) / EPS)
        bad("roundtrip", "depth", rel(back[0], H) / EPS)
        bad("roundtrip", "velocity", np.abs(back[1] - U) / (np.abs(U) + 1e-300) / EPS)
        f = space.field.fdata(model, m, [np.asarray(x).copy() for x in q])
        ref = {"height": H, "massflow": H * U, "velocity": U}
        for name in model.list_var():
            v = np.asarray(f.phydata(name))
            if v.shape != (n,):
                out.append(("C17/shallowwater/%s/shape" % name, "shape %r" % (v.shape,), only or 0))
                continue
            if name in ref:
                sc = np.abs(ref[name]) + (0 if name == "height" else 1e-300)
                bad(name, "definition", np.abs(v - ref[name]) / np.maximum(sc, 1e-300) / EPS)
            elif res is not None:
                res.census["shallowwater/unjudged-variable/%s" % name] += 1
        if res is not None:
            res.nontrivial += int(np.sum(F != 0))
    else:   # convection, burgers: conservative = primitive = the scalar itself
        model = space.make_model((kind, 1.5) if kind == "convection" else (kind,))
        vals = np.array(sorted(set([0.0] + [s * m_ * 10.0 ** e for s in (1, -1) for m_ in (1.0, 3.0) for e in range(-6, 7, 2)])))
        n = vals.size
        m = space.mesh_spec(("uni", n, 1.0, 0.0))
        q = model.prim2cons([vals.copy()])
        back = model.cons2prim([np.asarray(q[0]).copy()])
        bad("prim2cons", "scalar", np.where(np.asarray(q[0]) == vals, 0.0, np.inf))
        bad("roundtrip", "scalar", np.where(np.asarray(back[0]) == vals, 0.0, np.inf))
        f = space.field.fdata(model, m, [vals.copy()])
        for name in model.list_var():
            v = np.asarray(f.phydata(name))
            if name == "q":
                bad(name, "definition", np.where((v.shape == (n,)) and np.array_equal(v, vals), 0.0, np.inf) * np.ones(n))
            elif res is not None:
                res.census["%s/unjudged-variable/%s" % (kind, name)] += 1
        if res is not None:
            res.nontrivial += n - 1
    return out


def check_fromprim(res=None):
    """modeldisc.fdata_fromprim: a uniform primitive state given as scalars (a 2-vector for the 2D velocity) becomes the conservative field of that state"""
    out = []
    for kind, g in (("euler1d", 1.4), ("euler1d", 1.05), ("nozzle", 1.4), ("euler2d", 1.4), ("euler2d", 2.0), ("shallowwater", 9.81), ("convection", None), ("burgers", None)):
        for rho, M, p in ((1.0, 0.0, 1.0), (1e-3, 0.3, 1e3), (1e3, -3.0, 1e-3), (0.3, 30.0, 0.3)):
            if kind == "euler2d":
                model = space.euler.euler2d(gamma=g)
                msh = space.mesh2.mesh2d(3, 2, 1.0, 1.0)
                disc = space.modeldisc.fvm2d(model, msh, space.xnum.extrapol2d1(), {t: {"type": "per"} for t in ("left", "right", "top", "bottom")})
                c = np.sqrt(g * p / rho)
                V = [0.6 * M * c, -0.8 * M * c]
                f = disc.fdata_fromprim([rho, V, p])
                want = [np.full(6, rho), np.array([[rho * V[0]] * 6, [rho * V[1]] * 6]), np.full(6, p / (g - 1) + 0.5 * rho * (M * c) ** 2)]
                cond = 1 + g * M * M
            elif kind in ("euler1d", "nozzle"):
                model = space.euler.euler1d(gamma=g) if kind == "euler1d" else space.euler.nozzle(space.SECTION_LAWS["parab"], gamma=g)
                m = space.mesh_spec(("uni", 4, 1.0, 0.0))
                disc = space.modeldisc.fvm(model, m, space.xnum.extrapol1())
                c = np.sqrt(g * p / rho)
                f = disc.fdata_fromprim([rho, M * c, p])
                want = [np.full(4, rho), np.full(4, rho * M * c), np.full(4, p / (g - 1) + 0.5 * rho * (M * c) ** 2)]
            elif kind == "shallowwater":
                model = space.shallow.shallowwater1d(g=g)
                m = space.mesh_spec(("uni", 4, 1.0, 0.0))
                disc = space.modeldisc.fvm(model, m, space.xnum.extrapol1())
                u = M * np.sqrt(g * rho)
                f = disc.fdata_fromprim([rho, u])
                want = [np.full(4, rho), np.full(4, rho * u)]
            else:
                model = space.make_model((kind, 1.5) if kind == "convection" else (kind,))
                m = space.mesh_spec(("uni", 4, 1.0, 0.0))
                disc = space.modeldisc.fvm(model, m, space.xnum.extrapol1())
                f = disc.fdata_fromprim([M])
                want = [np.full(4, M)]
            if res is not None:
                res.evals += 1
                res.nontrivial += 1 if M != 0 else 0
            for k, (got, w) in enumerate(zip(f.data, want)):
                got = np.asarray(got, float)
                if got.shape != w.shape or not np.all(np.abs(got - w) <= K * EPS * (np.abs(w).max() + 1e-300)):
                    out.append(("C17/%s/fdata_fromprim/component%d" % (kind, k), "%s gamma|g=%r state (%g, M=%g, %g): fdata_fromprim gives %r, expected %r" % (
                        kind, g, rho, M, p, got.tolist(), w.tolist()), 0))
    return out


def shard_fromprim(_):
    res = core.Res()
    for s, w, i in check_fromprim(res):
        res.violation(s, w, {"cfg": ["fromprim", None, {}], "index": 0})
    return res


def configs(tier):
    th = tier == "thorough"
    gs = [1.4, 1.05, 5.0 / 3.0, 2.0]
    cfg = []
    for g in gs:
        cfg.append(("euler1d", g, {"tier": tier}))
        for law in (space.SECTION_LAWS if th else ["parab", "bump"]):
            cfg.append(("nozzle", g, {"law": law, "tier": tier}))
        for a in range(8):
            cfg.append(("euler2d", g, {"angle": a * np.pi / 4, "tier": tier}))
    for g in (9.81, 1.0, 10.0):
        cfg.append(("shallowwater", g, {}))
    cfg.append(("convection", None, {}))
    cfg.append(("burgers", None, {}))
    return cfg


def shard(cfg):
    res = core.Res()
    for s, w, i in evaluate(cfg, None, res):
        res.violation(s, w, {"cfg": [cfg[0], cfg[1], cfg[2]], "index": i})
    res.sample({"model": cfg[0], "gamma_or_g": cfg[1], "extra": cfg[2]}, cap=1)
    return res


def check_int(kind, par):
    """every named variable of integer-typed conservative data equals that of the same values as float64, bit for bit"""
    out = []
    if kind == "euler1d":
        model = space.euler.euler1d(gamma=par)
    elif kind == "shallowwater":
        model = space.shallow.shallowwater1d(g=par)
    elif kind == "burgers":
        model = space.burgers.model()
    else:
        model = space.convection.model(par)
    data = space.int_cons_lattice(kind)
    m = space.mesh_spec(("uni", data[0].size, 2.0, 0.0))
    ff = space.field.fdata(model, m, [d.copy() for d in data])
    n = 0
    for dt in (np.int64, np.int32):
        fi = space.field.fdata(model, m, [d.astype(dt) for d in data])
        for v in model.list_var():
            n += 1
            try:
                with np.errstate(all="ignore"):
                    a, b = fi.phydata(v), ff.phydata(v)
            except Exception as e:
                out.append(("C17/%s/%s/integer-typed-data/raises" % (kind, v), "phydata(%r) of %s data raised %r" % (v, np.dtype(dt).name, e), 0))
                continue
            if not space.same_bits(a, b):
                out.append(("C17/%s/%s/integer-typed-data" % (kind, v), "%s %r: %r of %s data is %r, of the same values as float64 %r" % (
                    kind, par, v, np.dtype(dt).name, np.asarray(a).tolist(), np.asarray(b).tolist()), 0))
        if kind in ("euler1d", "shallowwater"):
            # integer-valued primitive states (whole numbers written without the dot), every subset of the arrays integer-typed
            prim = [np.array([1.0, 2.0, 5.0, 1.0]), np.array([2.0, -1.0, 0.0, 3.0]), np.array([1.0, 3.0, 2.0, 4.0])][:model.neq]
            with np.errstate(all="ignore"):
                ref_q = model.prim2cons([x.copy() for x in prim])
            for mask in itertools.product((False, True), repeat=model.neq):
                if not any(mask):
                    continue
                n += 1
                try:
                    with np.errstate(all="ignore"):
                        got_q = model.prim2cons([x.astype(dt) if m_ else x.copy() for x, m_ in zip(prim, mask)])
                    if not space.same_bits(list(got_q), list(ref_q)):
                        out.append(("C17/%s/prim2cons/integer-typed-data" % kind, "prim2cons of primitive arrays %r with %s typed as %s gives %r, as float64 %r" % (
                            [x.tolist() for x in prim], ["rho/h", "u", "p"][:model.neq], [np.dtype(dt).name if m_ else "float64" for m_ in mask], [np.asarray(x).tolist() for x in got_q], [np.asarray(x).tolist() for x in ref_q]), 0))
                        break
                except Exception as e:
                    out.append(("C17/%s/prim2cons/integer-typed-data/raises" % kind, "prim2cons raised %r for integer-typed primitive arrays" % (e,), 0))
                    break
        try:
            with np.errstate(all="ignore"):
                pi, pf = model.cons2prim([d.astype(dt) for d in data]), model.cons2prim([d.copy() for d in data])
            if not space.same_bits(list(pi), list(pf)):
                out.append(("C17/%s/cons2prim/integer-typed-data" % kind, "cons2prim of %s data differs from that of the same values as float64" % np.dtype(dt).name, 0))
        except Exception as e:
            out.append(("C17/%s/cons2prim/integer-typed-data/raises" % kind, "cons2prim of %s data raised %r" % (np.dtype(dt).name, e), 0))
    return out, n


def check_inplace(kind, par):
    """history on one container: evaluate every variable, change the state in place (the field's own arrays, then a replaced array), evaluate
    again: the values are those of a fresh field holding the new state"""
    out = []
    def mk():
        if kind == "euler1d":
            return space.euler.euler1d(gamma=par)
        if kind == "euler2d":
            return space.euler.euler2d(gamma=par)
        return space.shallow.shallowwater1d(g=par)
    model, model_b, ref_model = mk(), mk(), mk()       # (model_b serves the bare list) the reference values come from another model object: the one under test sees nothing but its own container
    if kind == "euler2d":
        data = [np.array([1.0, 2.0, 0.5]), np.array([[0.3, -1.0, 0.2], [0.1, 0.4, -0.6]]), np.array([3.0, 6.0, 2.5])]
        m = space.mesh2.mesh2d(3, 1, 1.0, 1.0)
    elif kind == "euler1d":
        data = [np.array([1.0, 2.0, 0.5]), np.array([0.3, -1.0, 0.2]), np.array([3.0, 6.0, 2.5])]
        m = space.mesh_spec(("uni", 3, 2.0, 0.0))
    else:
        data = [np.array([1.0, 2.0, 0.5]), np.array([0.3, -1.0, 0.2])]
        m = space.mesh_spec(("uni", 3, 2.0, 0.0))
    f = space.field.fdata(model, m, [d.copy() for d in data])
    bare = [d.copy() for d in data]
    n = 0
    steps = [("scaled in place", lambda c: [c[-1].__imul__(1.7), c[1].__imul__(-1.0)]), ("array replaced", lambda c: c.__setitem__(0, c[0] * 1.3)),
             ("elements assigned", lambda c: c[-1].__setitem__(slice(None), c[-1] + 0.5))]
    for label, change in [("first look", lambda c: None)] + steps:
        change(f.data)
        change(bare)
        fresh = space.field.fdata(ref_model, m, [np.array(d, float).copy() for d in f.data])
        ref = {}
        with np.errstate(all="ignore"):
            for v in model.list_var():
                ref[v] = fresh.phydata(v)
        for v in model.list_var():
            n += 1
            with np.errstate(all="ignore"):
                a, b = f.phydata(v), ref[v]
            if not space.same_bits(a, b):
                out.append(("C17/%s/%s/after-in-place-change" % (kind, v), "%s %r: %r of a field whose data were %s is %r, a fresh field with the same data gives %r" % (
                    kind, par, v, label, np.asarray(a).tolist(), np.asarray(b).tolist()), 0))
        with np.errstate(all="ignore"):
            pb = ref_model.cons2prim([np.array(d, float).copy() for d in bare])
            pa = model_b.cons2prim(bare)
        if not space.same_bits(list(pa), list(pb)):
            out.append(("C17/%s/cons2prim/after-in-place-change" % kind, "%s %r: cons2prim of a list whose arrays were %s differs from cons2prim of a fresh copy" % (kind, par, label), 0))
    return out, n


def check_shared_nozzle(law):
    """history: a field on mesh A of a nozzle model; the same model object is then discretised on mesh B (same number of cells, other geometry);
    every variable of the field on mesh A still has the value it had, and massflow is rho u A(x) at the centres of mesh A"""
    A = space.SECTION_LAWS[law]
    noz = space.euler.nozzle(A)
    out = []
    mA, mB = space.mesh_spec(("uni", 4, 1.0, 0.0)), space.mesh_spec(("uni", 4, 3.0, -1.0))
    space.modeldisc.fvm(noz, mA, space.xnum.extrapol1())
    f = space.field.fdata(noz, mA, [np.array([1.0, 2.0, 0.5, 1.5]), np.array([0.3, -1.0, 0.2, 0.7]), np.array([3.0, 6.0, 2.5, 4.0])])
    with np.errstate(all="ignore"):
        before = {v: np.asarray(f.phydata(v), float).copy() for v in noz.list_var()}
    want = f.data[1] * A(np.asarray(mA.centers(), float))
    if not np.all(np.abs(before["massflow"] - want) <= 8 * EPS * np.abs(want)):
        out.append(("C17/nozzle/massflow/definition", "nozzle %s: massflow %r, rho u A(x) = %r" % (law, before["massflow"].tolist(), want.tolist()), 0))
    space.modeldisc.fvm(noz, mB, space.xnum.extrapol1())
    n = 0
    for v in noz.list_var():
        n += 1
        with np.errstate(all="ignore"):
            now = np.asarray(f.phydata(v), float)
        if not np.array_equal(now, before[v], equal_nan=True):
            out.append(("C17/nozzle/%s/changes-when-the-model-is-discretised-on-another-mesh" % v, "nozzle %s: %r of a field on mesh A was %r; after the same model object was discretised on mesh B "
                        "(4 cells, other length and origin) it is %r" % (law, v, before[v].tolist(), now.tolist()), 0))
    return out, n


def shard_shared_nozzle(law):
    res = core.Res()
    v, n = check_shared_nozzle(law)
    res.evals += n
    res.nontrivial += n
    for s, w, _ in v:
        res.violation(s, w, {"cfg": ["sharednoz", law, None], "index": 0})
    return res


def shard_inplace(cfg):
    res = core.Res()
    v, n = check_inplace(cfg[0], cfg[1])
    res.evals += n
    res.nontrivial += n
    for s, w, _ in v:
        res.violation(s, w, {"cfg": ["inplace", cfg[0], cfg[1]], "index": 0})
    return res


def shard_int(cfg):
    res = core.Res()
    v, n = check_int(cfg[0], cfg[1])
    res.evals += n
    res.nontrivial += n
    for s, w, _ in v:
        res.violation(s, w, {"cfg": ["int", cfg[0], cfg[1]], "index": 0})
    return res


def run(ctx):
    ctx.pmap("variables", shard, configs(ctx.tier))
    ctx.pmap("nozzle-model-on-two-meshes", shard_shared_nozzle, ["parab", "lin", "bump"], procs=1)
    ctx.pmap("state-changed-in-place", shard_inplace, [("euler1d", 1.4), ("euler1d", 5.0 / 3.0), ("euler2d", 1.4), ("shallowwater", 9.81)])
    ctx.pmap("integer-typed-data", shard_int, [("euler1d", 1.4), ("euler1d", 1.2), ("shallowwater", 9.81), ("burgers", None), ("convection", 2.0)])
    ctx.pmap("fdata_fromprim", shard_fromprim, [0])


def replay(case):
    if case["cfg"][0] == "sharednoz":
        return [(s, w) for s, w, _ in check_shared_nozzle(case["cfg"][1])[0]]
    if case["cfg"][0] == "inplace":
        return [(s, w) for s, w, _ in check_inplace(case["cfg"][1], case["cfg"][2])[0]]
    if case["cfg"][0] == "int":
        return [(s, w) for s, w, _ in check_int(case["cfg"][1], case["cfg"][2])[0]]
    if case["cfg"][0] == "fromprim":
        return [(s, w) for s, w, _ in check_fromprim()]
    cfg = (case["cfg"][0], case["cfg"][1], case["cfg"][2])
    v = evaluate(cfg, None)
    i = case["index"]
    return [(s, w) for s, w, j in v if j == i or s.endswith("/shape")]
