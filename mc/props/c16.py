"""C16 - boundary states satisfy the conditions that define them.

Pointwise exhaustive enumeration: every interior state of a product alphabet x
every parameter set x both sides (four sides and eight flow angles in 2D) x
gamma is pushed through the real model.namedBC and through the dispatch of the
discretisation, and the returned state is judged against reference isentropic /
characteristic / Rankine-Hugoniot relations written independently."""
import itertools

import numpy as np

from .. import core, space
from ..ref import physics as ph

ID = "C16"
LEVEL = "exploration"
RULE = ("all (interior state, parameter set, side, gamma) combinations of a product alphabet per boundary-condition name, "
        "direct namedBC call and dispatch through modeldisc.rhs; non-trivial = the interior state is inside the regime of the "
        "condition (decided by the reference) and differs from the returned state")
ASSUMPTIONS = ["states between alphabet letters are not explored",
               "outsub_nrcbc: 'the outgoing invariant' is read as the Riemann invariant that is constant across the outgoing "
               "acoustic wave (u - dir*2a/(gamma-1)); this is what makes the condition non-reflecting and is cross-checked by "
               "constructing interior states on an outgoing simple wave from a far state and requiring the far state back",
               "insub_cbc regime: 0 < dir*J <= 2 a_t/(gamma-1) (a real inflow solution exists), decided by the reference"]
EPS = np.finfo(float).eps
K = 256.0     # total-quantity relations chain pow() with exponents up to gamma/(gamma-1)=6 and a sqrt


def interior_1d(g, tier):
    rs = [1.0, 0.1, 10.0, 1e-3, 1e3]
    ms = [0.0, 0.3, -0.3, 0.9, -0.9, 1.5, -1.5, 3.0, -3.0] + ([1.0, -1.0, 1e-6, 0.999] if tier == "thorough" else [])
    R, M, P = [x.ravel() for x in np.meshgrid(rs, ms, rs, indexing="ij")]
    return np.array([R, M * np.sqrt(g * P / R), P])


def params_1d(tier):
    pt = [1.0, 10.0, 1e-2] + ([1e3] if tier == "thorough" else [])
    rt = [1.0, 5.0] + ([0.2] if tier == "thorough" else [])
    pp = [0.5, 2.0] + ([1.0, 1e-3] if tier == "thorough" else [])
    return [{"ptot": a, "rttot": b, "p": c} for a, b, c in itertools.product(pt, rt, pp)]


def relerr(a, b):
    return np.abs(a - b) / np.maximum(np.abs(b), 1e-300)


def judge_1d(g, name, dir, d, par, W):
    """returns list of (rule, normalised error array (in units of eps), regime mask)"""
    gm = g - 1.0
    rho, u, p = d
    n = rho.size
    W = [np.broadcast_to(np.asarray(w, float), (n,)) for w in W]
    a0 = np.sqrt(g * p / rho)
    every = np.ones(n, bool)
    out = []
    fin = np.isfinite(W[0]) & np.isfinite(W[1]) & np.isfinite(W[2])

    def tot(S):
        return ph.ptot_of(S[0], S[1] ** 2, S[2], g), ph.rttot_of(S[0], S[1] ** 2, S[2], g)
    with np.errstate(all="ignore"):
        if name in ("insub", "insup", "insub_cbc"):
            ptW, rtW = tot(W)
            if name == "insub":
                reg = p <= par["ptot"]
                out.append(("keeps-interior-pressure", np.where(W[2] == p, 0.0, np.inf), every))
            elif name == "insup":
                reg = np.full(n, par["p"] <= par["ptot"])
                out.append(("imposed-pressure", np.where(W[2] == par["p"], 0.0, np.inf), every))
            else:
                J0 = u + dir * 2.0 * a0 / gm
                at = np.sqrt(g * par["rttot"])
                reg = (dir * J0 > 0) & (dir * J0 <= 2.0 * at / gm * (1 - 1e-9))
                JW = W[1] + dir * 2.0 * np.sqrt(g * W[2] / W[0]) / gm
                out.append(("outgoing-invariant", np.abs(JW - J0) / (np.abs(u) + a0 + at) / EPS, reg))
            out.append(("total-pressure", relerr(ptW, par["ptot"]) / EPS, reg))
            out.append(("total-temperature", relerr(rtW, par["rttot"]) / EPS, reg))
            at = np.sqrt(g * par["rttot"])
            # inflow: -dir*u >= 0, up to the cancellation error of the cbc formula at the stagnation limit
            out.append(("inflow-direction", np.where(-dir * W[1] >= -K * EPS * at * 2.0 / gm, 0.0, np.inf), reg))
            out.append(("finite", np.where(fin, 0.0, np.inf), reg))
        elif name in ("outsub", "outsub_prim"):
            out.append(("copy-density", np.where(W[0] == rho, 0.0, np.inf), every))
            out.append(("copy-velocity", np.where(W[1] == u, 0.0, np.inf), every))
            out.append(("imposed-pressure", np.where(W[2] == par["p"], 0.0, np.inf), every))
        elif name == "outsub_qtot":
            pt0, rt0 = tot(d)
            ptW, rtW = tot(W)
            reg = pt0 >= par["p"]
            out.append(("total-pressure", relerr(ptW, pt0) / EPS, reg))
            out.append(("total-temperature", relerr(rtW, rt0) / EPS, reg))
            out.append(("imposed-pressure", np.where(W[2] == par["p"], 0.0, np.inf), every))
            out.append(("outflow-direction", np.where(dir * W[1] >= 0, 0.0, np.inf), reg))
            out.append(("finite", np.where(fin, 0.0, np.inf), reg))
        elif name == "outsub_nrcbc":
            aW = np.sqrt(g * W[2] / W[0])
            out.append(("entropy", relerr(W[2] / W[0] ** g, p / rho ** g) / EPS, every))
            out.append(("invariant-across-outgoing-wave",
                        np.abs((W[1] - dir * 2 * aW / gm) - (u - dir * 2 * a0 / gm)) / (np.abs(u) + a0 + aW) / EPS, every))
            out.append(("imposed-pressure", np.where(W[2] == par["p"], 0.0, np.inf), every))
            out.append(("finite", np.where(fin, 0.0, np.inf), every))
        elif name == "outsub_rh":
            p1 = par["p"]
            Ms2 = 1.0 + (p1 / p - 1.0) * (g + 1.0) / (2.0 * g)       # textbook normal-shock relation
            reg = Ms2 > 0
            Ws = u - dir * a0 * np.sqrt(np.where(reg, Ms2, 1.0))     # shock runs into the domain
            v0, v1 = u - Ws, W[1] - Ws
            m0, m1 = rho * v0, W[0] * v1
            out.append(("RH-mass", np.abs(m1 - m0) / (np.abs(m0) + rho * a0) / EPS, reg))
            out.append(("RH-momentum", relerr(W[2] + W[0] * v1 ** 2, p + rho * v0 ** 2) / EPS, reg))
            out.append(("RH-energy", relerr(g / gm * W[2] / W[0] + 0.5 * v1 ** 2, g / gm * p / rho + 0.5 * v0 ** 2) / EPS, reg))
            out.append(("imposed-pressure", np.where(W[2] == p1, 0.0, np.inf), every))
            out.append(("finite", np.where(fin, 0.0, np.inf), reg))
        elif name == "outsup":
            for k, nm in enumerate(("density", "velocity", "pressure")):
                out.append(("copy-" + nm, np.where(W[k] == d[k], 0.0, np.inf), every))
        elif name == "sym":
            out.append(("copy-density", np.where(W[0] == rho, 0.0, np.inf), every))
            out.append(("reverse-velocity", np.where(W[1] == -u, 0.0, np.inf), every))
            out.append(("copy-pressure", np.where(W[2] == p, 0.0, np.inf), every))
        else:
            raise KeyError(name)
    return out


def site(model, name, rule, dir):
    return "C16/%s/%s/%s/dir=%+d" % (model, name, rule, dir)


def collect(res, out, model, name, dir, mk_case, viols):
    for rule, err, reg in out:
        with np.errstate(all="ignore"):
            bad = reg & ~(err <= K)
        if res is not None:
            res.evals += int(err.size)
            if reg.any():
                fe = np.where(reg & np.isfinite(err), err, 0.0)
                res.worst("%s/%s/%s" % (model, name, rule), fe.max())
        for i in np.flatnonzero(bad)[:20]:
            viols.append((site(model, name, rule, dir), "%s %s dir=%+d rule '%s': error %.3g eps" % (model, name, dir, rule, err[i]), mk_case(int(i))))


# ---------------------------------------------------------------------------
def eval_direct_1d(g, name, dir, d, par, res=None):
    """direct namedBC call + wall-flux check for sym; returns list of (site, what, case)"""
    model = space.euler.euler1d(gamma=g)
    viols = []
    din = [d[0].copy(), d[1].copy(), d[2].copy()]
    pin = dict(par)
    with np.errstate(all="ignore"):
        W = model.namedBC(name, dir, din, pin)
    out = judge_1d(g, name, dir, d, par, W)
    same_in = all(np.array_equal(a, b) for a, b in zip(din, d)) and pin == par
    out.append(("does-not-modify-its-input", np.where(same_in, 0.0, np.inf) * np.ones(d[0].size), np.ones(d[0].size, bool)))
    if name == "sym":
        W = [np.asarray(w, float) for w in W]
        for fl in space.fluxes(model):
            L, R = (W, d) if dir < 0 else (d, W)
            with np.errstate(all="ignore"):
                F = model.numflux(fl, [L[0], L[1], L[2]], [R[0], R[1], R[2]])
            sm = np.abs(d[1]) + np.sqrt(g * d[2] / d[0])
            H = ph.euler_H(d[0], d[1] ** 2, d[2], g)
            out.append(("wall-mass-flux/" + fl, np.abs(F[0]) / (d[0] * sm) / EPS, np.ones(d[0].size, bool)))
            out.append(("wall-energy-flux/" + fl, np.abs(F[2]) / (d[0] * sm * H) / EPS, np.ones(d[0].size, bool)))
    if name == "outsub_nrcbc":
        # non-reflection: interior on an outgoing simple wave from the far state (rho, u, par.p) -> far state returned
        gm = g - 1.0
        rF, uF, pF = d[0], d[1], np.full(d[0].size, par["p"])
        aF = np.sqrt(g * pF / rF)
        for q in (0.5, 2.0, 1.01):
            p0 = pF * q
            r0 = rF * q ** (1.0 / g)
            a0 = np.sqrt(g * p0 / r0)
            u0 = uF + dir * 2.0 / gm * (a0 - aF)
            with np.errstate(all="ignore"):
                V = model.namedBC(name, dir, [r0, u0, p0], dict(par))
            out.append(("non-reflecting/q=%g/density" % q, relerr(V[0], rF) / EPS, np.ones(rF.size, bool)))
            out.append(("non-reflecting/q=%g/velocity" % q, np.abs(V[1] - uF) / (np.abs(uF) + aF + a0) / EPS, np.ones(rF.size, bool)))
    collect(res, out, "euler1d", name, dir,
            lambda i: {"kind": "direct1d", "gamma": g, "bc": name, "dir": dir, "par": par, "d": [float(x[i]) for x in d]}, viols)
    if res is not None:
        inside = out[0][2]
        res.nontrivial += int(np.sum(inside))
        res.census["euler1d/%s/in-regime" % name] += int(np.sum(inside))
        res.census["euler1d/%s/out-of-regime" % name] += int(np.sum(~inside))
    return viols


def eval_int_1d(g, res=None):
    """integer-valued interior states handed to namedBC as int64/int32 arrays: the boundary state is that of the same values as float64"""
    model = space.euler.euler1d(gamma=g)
    R, U, P = [x.ravel() for x in np.meshgrid([1.0, 2.0, 5.0], [-3.0, -1.0, 0.0, 1.0, 2.0], [1.0, 3.0, 4.0], indexing="ij")]
    par = {"ptot": 9.3, "rttot": 2.1, "p": 2.6, "prim": [1.3, 0.7, 2.2]}
    viols = []
    for name in BC1D + ["dirichlet"]:
        for dir in (-1, 1):
            with np.errstate(all="ignore"):
                ref = model.namedBC(name, dir, [R.copy(), U.copy(), P.copy()], dict(par))
                for dt in (np.int64, np.int32):
                    if res is not None:
                        res.evals += R.size
                        res.nontrivial += R.size
                    try:
                        got = model.namedBC(name, dir, [R.astype(dt), U.astype(dt), P.astype(dt)], dict(par))
                    except Exception as e:
                        viols.append(("C16/euler1d/%s/integer-typed-data/raises" % name, "namedBC(%r, dir=%d) raised %r for %s interior states" % (name, dir, e, np.dtype(dt).name),
                                      {"kind": "int1d", "gamma": g}))
                        continue
                    if not space.same_bits([np.broadcast_to(np.asarray(x, float), R.shape) for x in got], [np.broadcast_to(np.asarray(x, float), R.shape) for x in ref]):
                        viols.append(("C16/euler1d/%s/integer-typed-data" % name, "namedBC(%r, dir=%d) of %s interior states differs from that of the same values as float64" % (
                            name, dir, np.dtype(dt).name), {"kind": "int1d", "gamma": g}))
    return viols


def shard_int_1d(g):
    res = core.Res()
    for s_, w, c in eval_int_1d(g, res):
        res.violation(s_, w, c)
    return res


BC1D = ["insub", "insub_cbc", "insup", "outsub", "outsub_prim", "outsub_qtot", "outsub_rh", "outsub_nrcbc", "outsup", "sym"]


def shard_direct_1d(arg):
    g, tier = arg
    res = core.Res()
    d = interior_1d(g, tier)
    model = space.euler.euler1d(gamma=g)
    known = set(BC1D) | {"dirichlet", "per"}
    for nm in space.bc_names(model):
        if nm not in known:
            res.census["euler1d/unjudged-registered-bc/%s" % nm] += 1
    for name in BC1D:
        for dir in (-1, 1):
            for par in params_1d(tier):
                for s, w, c in eval_direct_1d(g, name, dir, d, par, res):
                    res.violation(s, w, c)
    res.sample({"gamma": g, "bc": "insub_cbc", "dir": -1, "par": params_1d(tier)[0], "interior": d[:, 7].tolist()}, cap=1)
    return res


# ---------------------------------------------------------------------------
# dispatch through the discretisation: the state found on the boundary faces after rhs() is the one that the definition
# of the named condition requires for that side (dir=-1 left, +1 right), with that side's parameters
def eval_disc_1d(g, bl, br, parL, parR, cells, res=None, rname="extrapol1"):
    model = space.euler.euler1d(gamma=g)
    m = space.mesh_spec(("uni", len(cells), 1.0, 0.0))
    prim = np.array(cells, float).T
    q = ph.prim2cons_1d(prim[0], prim[1], prim[2], g)
    if bl == br and parL == parR:
        shared = dict(parL, type=bl)        # one dictionary object for both sides, as a user with identical conditions would write it
        disc = space.modeldisc.fvm(model, m, space.recon(rname), numflux="hllc", bcL=shared, bcR=shared)
    else:
        disc = space.modeldisc.fvm(model, m, space.recon(rname), numflux="hllc",
                                   bcL=dict(parL, type=bl), bcR=dict(parR, type=br))
    f = space.field.fdata(model, m, q)
    viols = []
    with np.errstate(all="ignore"):
        disc.rhs(f)
    N = len(cells)
    for dir, name, par, inter, bnd in ((-1, bl, parL, [disc.pR[i][0] for i in range(3)], [disc.pL[i][0] for i in range(3)]),
                                       (1, br, parR, [disc.pL[i][N] for i in range(3)], [disc.pR[i][N] for i in range(3)])):
        d = np.array([[float(x)] for x in inter])
        cell = prim[:, 0 if dir < 0 else N - 1]
        out = judge_1d(g, name, dir, d, par, [np.array([float(x)]) for x in bnd])
        if rname != "extrapol1":
            # higher-order extrapolation: the condition is applied to the interior state extrapolated to the boundary face (read off the face
            # arrays), which differs from the cell state when the data have a slope there
            out = [(r_ + "/extrapolated-face-state", e_, m_) for r_, e_, m_ in out]
        else:
            out.append(("interior-side-is-adjacent-cell", np.where(np.all(np.abs(d[:, 0] - cell) <= 64 * EPS * (np.abs(cell) + np.abs(prim).max(axis=1))), 0.0, np.inf) * np.ones(1),
                        np.ones(1, bool)))
        collect(res, out, "euler1d-disc", name, dir,
                lambda i: {"kind": "disc1d", "gamma": g, "bl": bl, "br": br, "parL": parL, "parR": parR, "cells": cells, "recon": rname}, viols)
    return viols


def shard_disc_1d(arg):
    g, tier = arg
    res = core.Res()
    st = [space.euler_state(1.0, 0.3, 1.0, g), space.euler_state(0.5, -0.4, 2.0, g), space.euler_state(2.0, 1.5, 0.7, g),
          space.euler_state(1.3, -1.6, 1.1, g)]
    pars = [{"ptot": 3.0, "rttot": 1.5, "p": 0.8}, {"ptot": 11.0, "rttot": 0.7, "p": 1.9}]
    names = BC1D
    for bl, br in itertools.product(names, repeat=2):
        for parL, parR in list(itertools.permutations(pars, 2)) + [(pars[0], pars[0])]:
            for cells in itertools.product(st, repeat=2):
                res.nontrivial += 1
                for s, w, c in eval_disc_1d(g, bl, br, parL, parR, [list(x) for x in cells], res):
                    res.violation(s, w, c)
        # unlimited higher-order extrapolations, three cells with slopes next to both boundaries (mild states: the extrapolation stays admissible)
        mild = [space.euler_state(1.0, 0.3, 1.0, g), space.euler_state(1.2, -0.4, 1.3, g), space.euler_state(0.9, 0.6, 0.8, g)]
        for rname in ("extrapol2", "extrapol3"):
            for cells in itertools.product(mild, repeat=3):
                if cells[0] == cells[1] and cells[1] == cells[2]:
                    continue
                res.nontrivial += 1
                for s, w, c in eval_disc_1d(g, bl, br, pars[0], pars[1], [list(x) for x in cells], res, rname):
                    res.violation(s, w, c)
    return res


# ---------------------------------------------------------------------------
# 2D
def judge_2d(g, name, n, d, par, W):
    """n: outward unit normals (2,k); d=[rho, V(2,k), p]"""
    rho, V, p = d
    k = rho.size
    every = np.ones(k, bool)
    Wr, WV, Wp = np.asarray(W[0], float), np.asarray(W[1], float), np.asarray(W[2], float)
    out = []
    t = np.array([-n[1], n[0]])
    vn, vt = (V * n).sum(0), (V * t).sum(0)
    wn, wt = (WV * n).sum(0), (WV * t).sum(0)
    with np.errstate(all="ignore"):
        if name == "sym":
            sc = np.abs(vn) + np.abs(vt) + 1e-300
            out.append(("copy-density", np.where(Wr == rho, 0.0, np.inf), every))
            out.append(("copy-pressure", np.where(Wp == p, 0.0, np.inf), every))
            out.append(("reverse-normal-velocity", np.abs(wn + vn) / sc / EPS, every))
            out.append(("keep-tangential-velocity", np.abs(wt - vt) / sc / EPS, every))
        elif name in ("insub", "insup"):
            if name == "insub":
                reg = p <= par["ptot"]
                out.append(("keeps-interior-pressure", np.where(Wp == p, 0.0, np.inf), every))
            else:
                reg = np.full(k, par["p"] <= par["ptot"])
                out.append(("imposed-pressure", np.where(Wp == par["p"], 0.0, np.inf), every))
            w2 = (WV ** 2).sum(0)
            out.append(("total-pressure", relerr(ph.ptot_of(Wr, w2, Wp, g), par["ptot"]) / EPS, reg))
            out.append(("total-temperature", relerr(ph.rttot_of(Wr, w2, Wp, g), par["rttot"]) / EPS, reg))
            wmag = np.sqrt(w2)
            if name == "insup" and "angle" in par:
                ang = np.deg2rad(par["angle"])
                e = np.array([np.cos(ang), np.sin(ang)])[:, None]
            else:
                e = -n
            out.append(("flow-direction", np.sqrt(((WV - wmag * e) ** 2).sum(0)) / (wmag + 1e-300) / EPS, reg))
            out.append(("inflow", np.where(wn <= K * EPS * wmag, 0.0, np.inf), reg if "angle" not in par else reg & ((e * n).sum(0) < -1e-9)))
        elif name == "outsub":
            out.append(("copy-density", np.where(Wr == rho, 0.0, np.inf), every))
            out.append(("copy-velocity", np.where(np.all(WV == V, axis=0), 0.0, np.inf), every))
            out.append(("imposed-pressure", np.where(Wp == par["p"], 0.0, np.inf), every))
        elif name == "outsup":
            out.append(("copy-density", np.where(Wr == rho, 0.0, np.inf), every))
            out.append(("copy-velocity", np.where(np.all(WV == V, axis=0), 0.0, np.inf), every))
            out.append(("copy-pressure", np.where(Wp == p, 0.0, np.inf), every))
        else:
            raise KeyError(name)
    return out


BC2D = ["sym", "insub", "insup", "outsub", "outsup"]
TAGS = ["left", "right", "bottom", "top"]
OUTWARD = {"left": (-1.0, 0.0), "right": (1.0, 0.0), "bottom": (0.0, -1.0), "top": (0.0, 1.0)}


def interior_2d(g, tier):
    rs = [1.0, 0.1, 10.0]
    ms = [0.0, 0.3, 0.9, 1.5] + ([3.0] if tier == "thorough" else [])
    ang = np.arange(8) * np.pi / 4
    R, M, A, P = [x.ravel() for x in np.meshgrid(rs, ms, ang, rs, indexing="ij")]
    c = np.sqrt(g * P / R)
    return [R, np.array([M * c * np.cos(A), M * c * np.sin(A)]), P]


def eval_direct_2d(g, name, tag, d, par, res=None):
    model = space.euler.euler2d(gamma=g)
    k = d[0].size
    # the normal comes from the real mesh: a mesh with k boundary faces on that side
    msh = space.mesh2.mesh2d(k, k, 2.0, 1.0)
    n = np.asarray(msh.normal_of_bc(tag), float)
    viols = []
    ref_n = np.array(OUTWARD[tag])[:, None] * np.ones((1, k))
    out = [("mesh-normal-is-outward-unit", np.where(np.all(n == ref_n, axis=0), 0.0, np.inf), np.ones(k, bool))]
    din = [d[0].copy(), d[1].copy(), d[2].copy()]
    pin, nin = dict(par), n.copy()
    with np.errstate(all="ignore"):
        W = model.namedBC(name, nin, din, pin)
    out += judge_2d(g, name, ref_n, d, par, W)
    pure = all(np.array_equal(a, b) for a, b in zip(din, d)) and pin == par and np.array_equal(nin, n)
    out.append(("does-not-modify-its-input", np.where(pure, 0.0, np.inf) * np.ones(k), np.ones(k, bool)))
    if name == "sym":
        axis = 0 if tag in ("left", "right") else 1
        dirn = np.zeros((2, k))
        dirn[axis] = 1.0
        inward = msh.bcface_orientation(tag) == "inward"
        Wl = [np.asarray(W[0], float), np.asarray(W[1], float), np.asarray(W[2], float)]
        for fl in space.fluxes(model):
            L, R = (Wl, d) if inward else (d, Wl)
            with np.errstate(all="ignore"):
                F = model.numflux(fl, L, R, dirn)
            c = np.sqrt(g * d[2] / d[0])
            sm = np.sqrt((d[1] ** 2).sum(0)) + c
            H = ph.euler_H(d[0], (d[1] ** 2).sum(0), d[2], g)
            out.append(("wall-mass-flux/" + fl, np.abs(F[0]) / (d[0] * sm) / EPS, np.ones(k, bool)))
            out.append(("wall-energy-flux/" + fl, np.abs(F[2]) / (d[0] * sm * H) / EPS, np.ones(k, bool)))
            ft = np.asarray(F[1], float)[1 - axis]
            out.append(("wall-tangential-momentum-flux/" + fl, np.abs(ft) / (d[0] * sm * sm) / EPS, np.ones(k, bool)))
    for rule, err, reg in out:
        with np.errstate(all="ignore"):
            bad = reg & ~(err <= K)
        if res is not None:
            res.evals += int(err.size)
            res.worst("euler2d/%s/%s" % (name, rule), np.where(reg & np.isfinite(err), err, 0.0).max() if reg.any() else 0.0)
        for i in np.flatnonzero(bad)[:20]:
            viols.append(("C16/euler2d/%s/%s/%s" % (name, rule, tag), "euler2d %s on %s rule '%s': error %.3g eps" % (name, tag, rule, err[i]),
                          {"kind": "direct2d", "gamma": g, "bc": name, "tag": tag, "par": par,
                           "d": [float(d[0][i]), [float(d[1][0][i]), float(d[1][1][i])], float(d[2][i])]}))
    if res is not None:
        res.nontrivial += k
    return viols


def shard_2d(arg):
    g, tier = arg
    res = core.Res()
    d = interior_2d(g, tier)
    model = space.euler.euler2d(gamma=g)
    for nm in space.bc_names(model):
        if nm not in set(BC2D) | {"dirichlet", "per"}:
            res.census["euler2d/unjudged-registered-bc/%s" % nm] += 1
    for name in BC2D:
        for tag in TAGS:
            pars = [{"ptot": a, "rttot": b, "p": c} for a, b, c in itertools.product((1.0, 10.0), (1.0, 5.0), (0.5, 2.0))]
            if name == "insup":
                pars = pars + [dict(p_, angle=a) for p_ in pars[:2] for a in (0.0, 30.0, -45.0, 180.0, 90.0)]
            for par in pars:
                for s, w, c in eval_direct_2d(g, name, tag, d, par, res):
                    res.violation(s, w, c)
    res.sample({"gamma": g, "bc": "sym", "tag": "bottom", "interior": [float(d[0][5]), d[1][:, 5].tolist(), float(d[2][5])]}, cap=1)
    return res


def eval_disc_2d(g, bcs, cells_idx, res=None):
    """dispatch in the 2D discretisation: boundary face states after rhs()"""
    model = space.euler.euler2d(gamma=g)
    nx, ny = 2, 2
    msh = space.mesh2.mesh2d(nx, ny, 2.0, 1.0)
    alpha = [(1.0, 0.3, 0.2, 1.0), (0.5, -0.4, 0.6, 2.0), (2.0, 1.2, -0.9, 0.7), (1.3, -0.2, -1.5, 1.1)]
    P = np.array([alpha[i] for i in cells_idx]).T
    q = [P[0].copy(), np.array([P[0] * P[1], P[0] * P[2]]), P[3] / (g - 1) + 0.5 * P[0] * (P[1] ** 2 + P[2] ** 2)]
    par = {"ptot": 3.0, "rttot": 1.5, "p": 0.8}
    bclist = {t: dict(par, type=b) for t, b in zip(TAGS, bcs)}
    disc = space.modeldisc.fvm2d(model, msh, space.xnum.extrapol2d1(), bclist, numflux="hlle")
    f = space.field.fdata(model, msh, q)
    with np.errstate(all="ignore"):
        disc.rhs(f)
    viols = []
    # boundary faces of each side, recomputed from the row-wise numbering (i-faces first, then j-faces)
    faces = {"left": [j * (nx + 1) for j in range(ny)], "right": [j * (nx + 1) + nx for j in range(ny)],
             "bottom": [ny * (nx + 1) + i for i in range(nx)], "top": [ny * (nx + 1) + ny * nx + i for i in range(nx)]}
    adj = {"left": [j * nx for j in range(ny)], "right": [j * nx + nx - 1 for j in range(ny)],
           "bottom": list(range(nx)), "top": [(ny - 1) * nx + i for i in range(nx)]}
    for tag, b in zip(TAGS, bcs):
        io = np.array(faces[tag])
        inner, outer = (disc.pR, disc.pL) if tag in ("left", "bottom") else (disc.pL, disc.pR)
        d = [inner[0][io], inner[1][:, io], inner[2][io]]
        W = [outer[0][io], outer[1][:, io], outer[2][io]]
        n = np.array(OUTWARD[tag])[:, None] * np.ones((1, io.size))
        out = judge_2d(g, b, n, d, bclist[tag], W)
        cell = [P[0][adj[tag]], np.array([P[1][adj[tag]], P[2][adj[tag]]]), P[3][adj[tag]]]
        ok = np.allclose(d[0], cell[0], rtol=1e-13) and np.allclose(d[1], cell[1], rtol=1e-13, atol=1e-15) and np.allclose(d[2], cell[2], rtol=1e-13)
        out.append(("interior-side-is-adjacent-cell", np.where(ok, 0.0, np.inf) * np.ones(io.size), np.ones(io.size, bool)))
        for rule, err, reg in out:
            with np.errstate(all="ignore"):
                bad = reg & ~(err <= K)
            if res is not None:
                res.evals += int(err.size)
            if bad.any():
                viols.append(("C16/euler2d-disc/%s/%s/%s" % (b, rule, tag), "2D dispatch of %s on %s breaks '%s' (%.3g eps)" % (b, tag, rule, err[bad][0]),
                              {"kind": "disc2d", "gamma": g, "bcs": list(bcs), "cells": list(cells_idx)}))
    return viols


def shard_disc_2d(arg):
    g, tier = arg
    res = core.Res()
    for bcs in itertools.product(BC2D, repeat=4):
        for cells in ((0, 1, 2, 3), (3, 2, 0, 1)):
            res.nontrivial += 1
            for s, w, c in eval_disc_2d(g, bcs, cells, res):
                res.violation(s, w, c)
    return res


# ---------------------------------------------------------------------------
# shallow water and dirichlet
def eval_misc(case, res=None):
    viols = []
    kind = case["sub"]
    if kind == "sw":
        g = case["g"]
        model = space.shallow.shallowwater1d(g=g)
        hs = np.array([1.0, 1e-3, 1e3, 0.3])
        fr = np.array([0.0, 0.5, -0.5, 1.0, -1.0, 3.0, -3.0])
        H, FR = [x.ravel() for x in np.meshgrid(hs, fr, indexing="ij")]
        U = FR * np.sqrt(g * H)
        for dir in (-1, 1):
            W = model.namedBC("sym", dir, [H.copy(), U.copy()], {})
            if not (np.array_equal(W[0], H) and np.array_equal(W[1], -U)):
                viols.append(("C16/shallowwater/sym/reverse-velocity/dir=%+d" % dir, "sym does not return (h,-u)", case))
            W = [np.asarray(W[0], float), np.asarray(W[1], float)]
            for fl in space.fluxes(model):
                L, R = (W, [H, U]) if dir < 0 else ([H, U], W)
                F = model.numflux(fl, L, R)
                err = np.abs(F[0]) / (H * (np.abs(U) + np.sqrt(g * H))) / EPS
                if res is not None:
                    res.evals += err.size
                    res.worst("shallowwater/sym/wall-depth-flux", err.max())
                if not np.all(err <= K):
                    viols.append(("C16/shallowwater/sym/wall-depth-flux/%s/dir=%+d" % (fl, dir), "depth flux through a wall %.3g eps" % np.nanmax(err), case))
            W = model.namedBC("inf", dir, [H.copy(), U.copy()], {})
            if not (np.array_equal(W[0], H) and np.array_equal(W[1], U)):
                viols.append(("C16/shallowwater/inf/copy/dir=%+d" % dir, "inf does not copy the interior state", case))
        if res is not None:
            res.nontrivial += 2 * H.size
    elif kind == "dirichlet":
        specs = {"convection": ("convection", 1.5), "burgers": ("burgers",), "shallowwater": ("shallowwater", 9.81),
                 "euler1d": ("euler1d", 1.4), "nozzle": ("nozzle", "parab", 1.4), "euler2d": ("euler2d", 1.4)}
        for nm, spec in specs.items():
            model = space.make_model(spec)
            neq = model.neq
            for dir in (-1, 1):
                prim = [np.array([1.0 + 0.1 * k]) for k in range(neq)]
                if nm == "euler2d":
                    prim[1] = np.array([[0.3], [-0.2]])
                    dd = np.array([[float(dir)], [0.0]])
                else:
                    dd = dir
                inter = [0.0 * x + 7.0 for x in prim]
                W = model.namedBC("dirichlet", dd, inter, {"type": "dirichlet", "prim": prim})
                if res is not None:
                    res.evals += 1
                    res.nontrivial += 1
                if len(W) != neq or not all(np.array_equal(np.asarray(a), np.asarray(b)) for a, b in zip(W, prim)):
                    viols.append(("C16/%s/dirichlet/imposed-state/dir=%+d" % (nm, dir), "dirichlet does not return the imposed primitive state", case))
            if nm in ("euler2d",):
                continue
            # through the discretisation, different states on the two sides
            for n in (1, 2, 3):
                m = space.mesh_spec(("uni", n, 1.0, 0.0))
                pl = [np.float64(2.0 + 0.5 * k) for k in range(neq)]
                pr = [np.float64(3.0 + 0.25 * k) for k in range(neq)]
                disc = space.modeldisc.fvm(model, m, space.xnum.extrapol1(), numflux=None,
                                           bcL={"type": "dirichlet", "prim": pl}, bcR={"type": "dirichlet", "prim": pr})
                cell = [np.full(n, 1.0 + 0.1 * k) for k in range(neq)]
                f = space.field.fdata(model, m, model.prim2cons(cell))
                disc.rhs(f)
                okL = all(disc.pL[i][0] == pl[i] for i in range(neq))
                okR = all(disc.pR[i][n] == pr[i] for i in range(neq))
                if res is not None:
                    res.evals += 2
                if not okL:
                    viols.append(("C16/%s-disc/dirichlet/imposed-state/dir=-1" % nm, "left boundary face state is not the imposed state", case))
                if not okR:
                    viols.append(("C16/%s-disc/dirichlet/imposed-state/dir=+1" % nm, "right boundary face state is not the imposed state", case))
    return viols


def shard_misc(case):
    res = core.Res()
    for s, w, c in eval_misc(case, res):
        res.violation(s, w, c)
    return res


# ---------------------------------------------------------------------------
def run(ctx):
    gs = [1.4, 1.2] + ([5.0 / 3.0, 2.0] if ctx.thorough else [])
    ctx.pmap("direct-1d", shard_direct_1d, [(g, ctx.tier) for g in gs])
    ctx.pmap("dispatch-1d", shard_disc_1d, [(g, ctx.tier) for g in gs])
    ctx.pmap("integer-typed-states-1d", shard_int_1d, gs)
    ctx.pmap("direct-2d", shard_2d, [(g, ctx.tier) for g in gs])
    ctx.pmap("dispatch-2d", shard_disc_2d, [(g, ctx.tier) for g in gs[:2]])
    ctx.pmap("shallowwater+dirichlet", shard_misc, [{"kind": "misc", "sub": "sw", "g": 9.81}, {"kind": "misc", "sub": "sw", "g": 1.0},
                                                   {"kind": "misc", "sub": "dirichlet"}])


def replay(case):
    k = case["kind"]
    if k == "direct1d":
        d = np.array([[x] for x in case["d"]], float)
        v = eval_direct_1d(case["gamma"], case["bc"], case["dir"], d, case["par"])
    elif k == "int1d":
        v = eval_int_1d(case["gamma"])
    elif k == "disc1d":
        v = eval_disc_1d(case["gamma"], case["bl"], case["br"], case["parL"], case["parR"], case["cells"], None, case.get("recon", "extrapol1"))
    elif k == "direct2d":
        d = case["d"]
        dd = [np.array([d[0]], float), np.array([[d[1][0]], [d[1][1]]], float), np.array([d[2]], float)]
        v = eval_direct_2d(case["gamma"], case["bc"], case["tag"], dd, case["par"])
    elif k == "disc2d":
        v = eval_disc_2d(case["gamma"], tuple(case["bcs"]), tuple(case["cells"]))
    elif k == "misc":
        v = eval_misc(case)
    else:
        raise KeyError(k)
    return [(s, w) for s, w, _ in v]
