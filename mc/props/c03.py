"""C03 - uniform and compatible steady states are fixed points.

Shape B: every uniform state of a product alphabet x mesh x reconstruction x flux x
every boundary set compatible with the state (parameters computed from the state by
reference isentropic relations), in 1D and 2D (8 flow angles); nozzle at rest for
every section law.  Shape A: two real solve iterations (+1 snapshot) for every
integrator class with global and local time step.
"""
import itertools

import numpy as np

from .. import core, space
from ..ref import physics as ph

ID = "C03"
LEVEL = "exploration"
RULE = ("uniform states: Euler rho,p in {1,0.3,1e3} x Mach {0,+-0.3,+-0.9,+-1.5,+-3} (2D: |M| x 8 angles), scalar {-2,-1,0,1,3}, shallow water h x Froude; "
        "x 12 meshes (n<=5; 2D grids {1,2,3}^2) x 16 (6) reconstructions x every registered flux x every compatible boundary set (periodic, dirichlet, every "
        "in-regime inlet/outlet pair on either side; 2D: 9 families); nozzle at rest x 5 section laws; solve: every integrator x dtlocal on/off x 2 iterations + "
        "snapshot. non-trivial = moving state or non-periodic boundary")
ASSUMPTIONS = ["states between alphabet letters are not explored",
               "tolerance 64 eps x flux scale / min dx, times (1 + 2/((gamma-1) M^2)) when an inlet inverts the isentropic relation (ill-conditioned at low Mach)",
               "implicit classes: 1e-6 (1+CFL) relative", "a regime is the one the condition is named for: insub/insub_cbc/outsub* for |M|<1, insup/outsup for |M|>1"]
EPS = np.finfo(float).eps
K = 64.0
G = 1.4

MESHES = [("uni", 1, 1.0, 0.0), ("uni", 2, 3.0, -4.0), ("uni", 5, 1.0, 0.3), ("ref", 4, 1.0, 2.0, 1, 1), ("ref", 5, 2.0, 0.5, 1, 2), ("w", (0.5, 2.0)),
          ("w", (2.0, 0.5, 1.0)), ("w", (1.0, 0.5, 0.5, 2.0)), ("w", (0.5, 0.5, 2.0, 1.0, 2.0)), ("w", (2.0, 2.0, 0.5)), ("uni", 3, 1e-3, 0.0), ("uni", 4, 1e3, 10.0)]


def euler_bcsets(rho, u, p, G=1.4):
    """boundary pairs compatible with the uniform state (rho,u,p)"""
    c = np.sqrt(G * p / rho)
    M = u / c
    par = {"ptot": float(ph.ptot_of(rho, u * u, p, G)), "rttot": float(ph.rttot_of(rho, u * u, p, G)), "p": float(p)}
    e = lambda n: (n, par)
    sets = [("per", "per"), (("dirichlet", [rho, u, p]), ("dirichlet", [rho, u, p]))]
    sub_in = ["insub", "insub_cbc"]
    sub_out = ["outsub", "outsub_prim", "outsub_qtot", "outsub_rh", "outsub_nrcbc"]
    if M == 0:
        sets += [("sym", "sym")] + [(e(a), e(b)) for a in sub_in + sub_out for b in sub_in + sub_out if (a, b) in
                                    (("insub", "outsub"), ("outsub", "insub"), ("insub_cbc", "insub"), ("outsub_qtot", "outsub_rh"), ("outsub_nrcbc", "insub_cbc"),
                                     ("insub", "insub"), ("outsub_rh", "outsub_nrcbc"), ("outsub_prim", "outsub_qtot"))]
        sets += [("sym", e("outsub")), (e("insub"), "sym")]
        sets += [(e("insup"), e("outsup")), (e("outsup"), e("insup")), (e("insup"), e("insup")), (e("insup"), e("outsub_nrcbc")), ("sym", e("insup"))]
    else:
        # every inlet condition on the side the flow enters with every outlet condition on the side it leaves: the property asks for
        # "conditions whose parameters are those of the state itself", whatever the Mach regime the condition was designed for
        pairs = [(a, b) for a in sub_in + ["insup"] for b in sub_out + ["outsup"]]
        sets += [(e(a), e(b)) if M > 0 else (e(b), e(a)) for a, b in pairs]
        out1 = "outsub" if abs(M) < 1 else "outsup"
        sets += [(("dirichlet", [rho, u, p]), e(out1)) if M > 0 else (e(out1), ("dirichlet", [rho, u, p]))]
    inlet = lambda b: (not isinstance(b, str)) and b[0] in ("insub", "insub_cbc", "insup", "outsub_qtot")
    cond = 1.0 + (2.0 / ((G - 1) * M * M) if M != 0 else 0.0)
    return [(s, cond if (inlet(s[0]) or inlet(s[1])) else 1.0) for s in sets]


def bc_tag(b):
    return b if isinstance(b, str) else b[0]


def check_op_1d(mname, spec, flux, rname, mspec, bcs, state, cond, res=None):
    """state: primitive tuple; returns violations"""
    mesh = space.mesh_spec(mspec)
    model, disc = space.build_1d(spec, flux, rname, mesh, bcs[0], bcs[1])
    n = mesh.ncell
    prim = [np.full(n, float(v)) for v in state]
    q = model.prim2cons(prim)
    f = space.field.fdata(model, mesh, [np.asarray(x, float).copy() for x in q])
    with np.errstate(all="ignore"):
        R = [np.asarray(r, float) for r in disc.rhs(f)]
    dxmin = float(np.min(mesh.vol()))
    kind = spec[0]
    if kind in ("euler1d", "nozzle"):
        rho, u, p = state
        gam = spec[-1]
        c = np.sqrt(gam * p / rho)
        s = abs(u) + c
        S = [rho * s, rho * s * s, rho * s * (c * c / (gam - 1) + 0.5 * u * u)]
    elif kind == "shallowwater":
        h, u = state
        s = abs(u) + np.sqrt(spec[1] * h)
        S = [h * s, h * s * s]
    elif kind == "convection":
        S = [abs(spec[1]) * abs(state[0]) + 1e-300]
    else:
        S = [state[0] ** 2 + 1e-300]
    out = []
    site = "C03/op1d/%s/%s/%s/%s-%s" % (mname, flux or "builtin", "unlimited" if space.recon_kappa(rname) is not None else rname.replace(":", "-"),
                                        bc_tag(bcs[0]), bc_tag(bcs[1]))
    for qi in range(model.neq):
        err = np.abs(R[qi]).max() / (S[qi] / dxmin) / EPS if np.all(np.isfinite(R[qi])) else np.inf
        if res is not None:
            res.evals += 1
            res.worst("op1d-residual/eps", err / cond)
        if not err <= K * cond:
            out.append((site + "/eq%d" % qi, "%s %s %s mesh %r bc %s-%s uniform state %r: residual %r (%.3g eps of the flux scale/dx, allowed %.3g)" % (
                mname, flux, rname, mspec, bc_tag(bcs[0]), bc_tag(bcs[1]), state, R[qi].tolist(), err, K * cond)))
    return out


def states_1d(kind, g=9.81, gam=1.4):
    if kind == "euler":
        out = []
        for r, m, p in itertools.product((1.0, 0.3, 1e3), (0.0, 0.3, -0.3, 0.9, -0.9, 1.5, -1.5, 3.0, -3.0), (1.0, 0.3, 1e3)):
            out.append((r, m * np.sqrt(gam * p / r), p))
        return out
    if kind == "sw":
        return [(h, f * np.sqrt(g * h)) for h in (1.0, 1e-3, 1e3, 0.3) for f in (0.0, 0.5, -0.5, 1.0, -1.0, 3.0, -3.0)]
    return [(v,) for v in (-2.0, -1.0, 0.0, 1.0, 3.0)]


def shard_op1d(arg):
    mname, flux, rname, tier = arg
    res = core.Res()
    if mname.startswith("euler1d"):
        gam = float(mname.split("@")[1]) if "@" in mname else G
        spec = ("euler1d", gam)
        for st in states_1d("euler", gam=gam):
            for bcs, cond in euler_bcsets(*st, G=gam):
                for mspec in MESHES:
                    res.nontrivial += 1 if (st[1] != 0 or bcs[0] != "per") else 0
                    for s, w in check_op_1d(mname, spec, flux, rname, mspec, bcs, st, cond, res):
                        res.violation(s, w, {"kind": "op1d", "model": mname, "spec": list(spec), "flux": flux, "recon": rname, "mesh": mspec, "bcs": bcs,
                                             "state": list(st), "cond": cond})
    elif mname.startswith("nozzle"):
        law = mname.split("-")[1]
        spec = ("nozzle", law, G)
        for r, p in itertools.product((1.0, 0.3, 1e3), repeat=2):
            st = (r, 0.0, p)
            par = {"ptot": p, "rttot": p / r, "p": p}
            for bcs in (("per", "per"), ("sym", "sym"), (("dirichlet", list(st)), ("dirichlet", list(st))), (("insub", par), ("outsub", par)),
                        (("outsub_nrcbc", par), ("insub_cbc", par)), ("sym", ("outsub_rh", par))):
                for mspec in MESHES:
                    res.nontrivial += 1
                    for s, w in check_op_1d(mname, spec, flux, rname, mspec, bcs, st, 1.0, res):
                        res.violation(s, w, {"kind": "op1d", "model": mname, "spec": list(spec), "flux": flux, "recon": rname, "mesh": mspec, "bcs": bcs,
                                             "state": list(st), "cond": 1.0})
    elif mname == "shallowwater":
        for g in (9.81, 1.0):
            spec = ("shallowwater", g)
            for st in states_1d("sw", g):
                sets = [("per", "per"), (("dirichlet", list(st)), ("dirichlet", list(st))), ("inf", "inf"), ("inf", ("dirichlet", list(st)))]
                if st[1] == 0:
                    sets += [("sym", "sym"), ("sym", "inf")]
                for bcs in sets:
                    for mspec in MESHES:
                        res.nontrivial += 1 if (st[1] != 0 or bcs[0] != "per") else 0
                        for s, w in check_op_1d(mname, spec, flux, rname, mspec, bcs, st, 1.0, res):
                            res.violation(s, w, {"kind": "op1d", "model": mname, "spec": list(spec), "flux": flux, "recon": rname, "mesh": mspec, "bcs": bcs,
                                                 "state": list(st), "cond": 1.0})
    else:
        specs = [("convection", 1.0), ("convection", -1.5)] if mname == "convection" else [("burgers",)]
        for spec in specs:
            for st in states_1d("scalar"):
                for bcs in (("per", "per"), (("dirichlet", list(st)), ("dirichlet", list(st)))):
                    for mspec in MESHES:
                        res.nontrivial += 1 if bcs[0] != "per" else 0
                        for s, w in check_op_1d(mname, spec, flux, rname, mspec, bcs, st, 1.0, res):
                            res.violation(s, w, {"kind": "op1d", "model": mname, "spec": list(spec), "flux": flux, "recon": rname, "mesh": mspec, "bcs": bcs,
                                                 "state": list(st), "cond": 1.0})
    res.sample({"model": mname, "flux": flux, "recon": rname, "uniform_state": [1.0, 1.06, 1.0], "bc": ["insub", "outsub_nrcbc"], "mesh": ["w", [2.0, 0.5, 1.0]]}, cap=1)
    return res


# ---------------------------------------------------------------------------
# 2D
def bc2d_families(rho, M, ang_deg, p):
    """compatible boundary sets for the uniform 2D state; returns list of (name, dict tag->bc dict, cond)"""
    c = np.sqrt(G * p / rho)
    a = np.deg2rad(ang_deg)
    V = np.array([[M * c * np.cos(a)], [M * c * np.sin(a)]])
    if ang_deg % 90 == 0:       # exact axis alignment (cos/sin of multiples of 90 degrees are not exactly 0/1 in floating point)
        k = int(ang_deg // 90) % 4
        V = M * c * np.array([[(1.0, 0.0, -1.0, 0.0)[k]], [(0.0, 1.0, 0.0, -1.0)[k]]])
    par = {"ptot": float(ph.ptot_of(rho, (M * c) ** 2, p, G)), "rttot": float(ph.rttot_of(rho, (M * c) ** 2, p, G)), "p": float(p)}
    T = ("left", "right", "bottom", "top")
    dirich = {"type": "dirichlet", "prim": [np.float64(rho), V.copy(), np.float64(p)]}
    fam = [("all-per", {t: {"type": "per"} for t in T}, 1.0), ("all-dirichlet", {t: dict(dirich) for t in T}, 1.0)]
    cond = 1.0 + (2.0 / ((G - 1) * M * M) if M != 0 else 0.0)
    if M == 0:
        fam.append(("all-sym", {t: {"type": "sym"} for t in T}, 1.0))
        fam.append(("sym+insub+outsub", {"left": dict(par, type="insub"), "right": dict(par, type="outsub"), "bottom": {"type": "sym"}, "top": {"type": "sym"}}, 1.0))
    if ang_deg in (0, 180) and M != 0 or M == 0:
        fam.append(("xper-ysym", {"left": {"type": "per"}, "right": {"type": "per"}, "bottom": {"type": "sym"}, "top": {"type": "sym"}}, 1.0))
    if ang_deg in (90, 270) and M != 0 or M == 0:
        fam.append(("yper-xsym", {"left": {"type": "sym"}, "right": {"type": "sym"}, "bottom": {"type": "per"}, "top": {"type": "per"}}, 1.0))
    if M != 0 and ang_deg % 90 == 0:
        k = int(ang_deg // 90) % 4
        inlet_tag = ("left", "bottom", "right", "top")[k]
        outlet_tag = ("right", "top", "left", "bottom")[k]
        others = [t for t in T if t not in (inlet_tag, outlet_tag)]
        # the pair designed for the regime with both kinds of side walls, the pair designed for the other regime (parameters of the state
        # itself: still a fixed point) with periodic sides
        for (i_name, o_name), sides in (((("insub", "outsub"), ("sym", "per")), (("insup", "outsup"), ("per",))) if M < 1 else
                                        ((("insup", "outsup"), ("sym", "per")), (("insub", "outsub"), ("per",)))):
            for side in sides:
                b = {inlet_tag: dict(par, type=i_name), outlet_tag: dict(par, type=o_name)}
                for t in others:
                    b[t] = {"type": side}
                fam.append(("%s->%s/%s" % (i_name, o_name, side), b, cond))
    if M > 0:
        # oblique supersonic inflow with the 'angle' parameter
        if -90 < ((ang_deg + 180) % 360 - 180) < 90:
            b = {"left": dict(par, type="insup", angle=float(ang_deg)), "right": {"type": "outsup"}, "bottom": {"type": "per"}, "top": {"type": "per"}}
            fam.append(("insup(angle)->outsup/per", b, cond))
        if 0 < ang_deg < 90:
            b = {"left": dict(par, type="insup", angle=float(ang_deg)), "bottom": dict(par, type="insup", angle=float(ang_deg)),
                 "right": {"type": "outsup"}, "top": {"type": "outsup"}}
            fam.append(("insup(angle) left+bottom", b, cond))
    return V, fam


def check_op_2d(flux, rname, grid, rho, M, ang, p, famname, res=None):
    V, fams = bc2d_families(rho, M, ang, p)
    fam = [f for f in fams if f[0] == famname]
    if not fam:
        return []
    _, bcs, cond = fam[0]
    nx, ny, lx, ly = grid
    model = space.euler.euler2d(gamma=G)
    msh = space.mesh2.mesh2d(nx, ny, lx, ly)
    disc = space.modeldisc.fvm2d(model, msh, space.recon(rname), bcs, numflux=flux)
    nc = nx * ny
    prim = [np.full(nc, rho), V * np.ones((1, nc)), np.full(nc, p)]
    q = model.prim2cons(prim)
    f = space.field.fdata(model, msh, [np.asarray(x, float).copy() for x in q])
    with np.errstate(all="ignore"):
        R = disc.rhs(f)
    c = np.sqrt(G * p / rho)
    s = abs(M) * c + c
    h = min(lx / nx, ly / ny)
    S = [rho * s / h, rho * s * s / h, rho * s * (c * c / (G - 1) + 0.5 * (M * c) ** 2) / h]
    out = []
    for qi, name in enumerate(("mass", "momentum", "energy")):
        r = np.asarray(R[qi], float)
        err = np.abs(r).max() / S[qi] / EPS if np.all(np.isfinite(r)) else np.inf
        if res is not None:
            res.evals += 1
            res.worst("op2d-residual/eps", err / cond)
        if not err <= K * cond:
            out.append(("C03/op2d/%s/%s/%s/%s" % (flux, "first-order" if rname == "extrapol2d1" else "k-scheme", famname, name),
                        "%s %s grid %r uniform state rho=%g M=%g angle=%g p=%g, boundaries %s: %s residual up to %.3g (%.3g eps of the flux scale/h, allowed %.3g)" % (
                            flux, rname, grid, rho, M, ang, p, famname, name, np.abs(r).max(), err, K * cond)))
    return out


def shard_op2d(arg):
    flux, rname, tier = arg
    res = core.Res()
    grids = [(nx, ny, 2.0, 0.75) for nx in (1, 2, 3) for ny in (1, 2, 3)]
    for rho, p in ((1.0, 1.0), (0.3, 1e3), (1e3, 0.3)):
        for M in (0.0, 0.3, 0.9, 1.5, 3.0):
            for ang in ((0,) if M == 0 else (0, 45, 90, 135, 180, 225, 270, 315, 30)):
                _, fams = bc2d_families(rho, M, ang, p)
                for famname, _, _ in fams:
                    for grid in grids:
                        res.nontrivial += 1 if (M != 0 or famname != "all-per") else 0
                        for s, w in check_op_2d(flux, rname, grid, rho, M, ang, p, famname, res):
                            res.violation(s, w, {"kind": "op2d", "flux": flux, "recon": rname, "grid": list(grid), "rho": rho, "M": M, "ang": ang, "p": p, "fam": famname})
    res.sample({"flux": flux, "recon": rname, "grid": [3, 2, 2.0, 0.75], "state": {"rho": 1.0, "Mach": 1.5, "angle": 30, "p": 1.0}, "boundaries": "insup(angle) left+bottom"}, cap=1)
    return res


# ---------------------------------------------------------------------------
# solve level
SOLVE_SYS = [("convection", ("convection", -1.5), None, "extrapol3", (1.0,), "per"), ("burgers", ("burgers",), None, "muscl:vanleer", (3.0,), "per"),
             ("burgers", ("burgers",), None, "extrapol1", (-2.0,), "dirichlet"), ("burgers", ("burgers",), None, "muscl:minmod", (0.0,), "per"),
             ("shallowwater", ("shallowwater", 9.81), "hll", "muscl:minmod", (1.0, 1.5660459763365826), "per"),
             ("shallowwater", ("shallowwater", 9.81), "rusanov", "extrapol1", (0.3, 0.0), "sym"),
             ("euler1d", ("euler1d", G), "hllc", "muscl:superbee", "M0.9", "in-out"), ("euler1d", ("euler1d", G), "hlle", "extrapol3", "M-0.3", "in-out"),
             ("euler1d", ("euler1d", G), "hllc", "extrapol1", "M1.5", "in-out"), ("euler1d", ("euler1d", G), "centered", "extrapol2", "M0", "sym"),
             ("nozzle-bump", ("nozzle", "bump", G), "hllc", "muscl:vanalbada", "M0", "sym"), ("nozzle-lin", ("nozzle", "lin", G), "hlle", "extrapol1", "M0", "in-out")]


def check_solve(iname, sysi, dtlocal, mspec, res=None):
    mname, spec, flux, rname, st, bck = SOLVE_SYS[sysi]
    cls = space.integrators()[iname]
    impl = space.is_implicit(cls)
    if isinstance(st, str):
        M = float(st[1:])
        st = (1.0, M * np.sqrt(G), 1.0)
    if bck == "per":
        bcs = ("per", "per")
    elif bck == "sym":
        bcs = ("sym", "sym")
    elif bck == "dirichlet":
        bcs = (("dirichlet", list(st)), ("dirichlet", list(st)))
    else:
        sets = [b for b, c in euler_bcsets(*st) if not isinstance(b[0], str) and b[0][0] != "dirichlet" and b[1][0] != "dirichlet"]
        bcs = sets[0]
    mesh = space.mesh_spec(mspec)
    model, disc = space.build_1d(spec, flux, rname, mesh, bcs[0], bcs[1])
    n = mesh.ncell
    q = model.prim2cons([np.full(n, float(v)) for v in st])
    f = space.field.fdata(model, mesh, [np.asarray(x, float).copy() for x in q])
    zero_burgers = (spec[0] == "burgers" and st[0] == 0.0)
    site = "C03/solve/%s/%s" % (iname, mname)
    out = []
    direc = {"dtlocal": True} if dtlocal else {}
    try:
        with np.errstate(all="ignore"), core.time_limit(5.0):
            dt0 = float(np.min(disc.calc_timestep(f, 0.7)))
            ts = [0.4 * dt0] if np.isfinite(dt0) else []
            # a run with a snapshot returns only the snapshot: the state after the 2 full iterations comes from a second run without save times
            o = cls(mesh, disc).solve(f, 0.7, ts, stop={"maxit": 2, "tottime": 1e30}, directives=direc)
            o2 = cls(mesh, disc).solve(f, 0.7, stop={"maxit": 2}, directives=direc)
            legacy = []
            if not dtlocal and np.isfinite(dt0):
                # the older driver of the same integrator classes (global step only): two save times off the step grid
                legacy = list(cls(mesh, disc).solve_legacy(f, 0.7, [1.4 * dt0, 2.3 * dt0]))
    except core.CallTimeout:
        return [("C03/solve/burgers/zero-state/infinite-time-step" if zero_burgers else site + "/non-termination", "solve from the uniform state %r did not return" % (st,))]
    except Exception as e:
        return [("C03/solve/burgers/zero-state/infinite-time-step" if zero_burgers else site + "/exception", "solve from the uniform state %r raised %r" % (st, e))]
    if res is not None:
        res.transitions += 1
    tol = 2e-6 if impl else 256 * EPS
    for g in list(o.solutions) + list(o2.solutions) + legacy:
        for qi in range(model.neq):
            want = np.asarray(q[qi], float)
            sc = max(np.abs(np.asarray(x)).max() for x in q) + 1e-300
            with np.errstate(all="ignore"):
                err = np.abs(g.data[qi] - want).max() / sc if np.all(np.isfinite(g.data[qi])) else np.inf
            if res is not None:
                res.evals += 1
                if np.isfinite(err):
                    res.worst("solve/" + ("implicit" if impl else "explicit"), err / tol)
            if not err <= tol:
                s_ = "C03/solve/burgers/zero-state/infinite-time-step" if zero_burgers else site + "/eq%d" % qi
                out.append((s_, "%s %s %s %s mesh %r bc %s uniform state %r dtlocal=%s: after solve the field differs from the initial state by %r (t=%r)" % (
                    iname, mname, flux, rname, mspec, bck, st, dtlocal, err, g.time)))
                return out
    return out


def shard_solve(arg):
    iname, sysi = arg
    res = core.Res()
    for dtlocal in (False, True):
        for mspec in (("uni", 3, 1.0, 0.0), ("w", (2.0, 0.5, 1.0, 0.5))):
            res.nontrivial += 1
            for s, w in check_solve(iname, sysi, dtlocal, mspec, res):
                res.violation(s, w, {"kind": "solve", "integrator": iname, "sys": sysi, "dtlocal": dtlocal, "mesh": mspec})
    res.sample({"integrator": iname, "system": list(SOLVE_SYS[sysi][:1]) + [SOLVE_SYS[sysi][3]], "dtlocal": True, "ops": ["solve(maxit=2, save=[0.4 dt])"]}, cap=1)
    return res


def check_solve_2d(iname, flux, rname, M, ang, famname, dtlocal, res=None):
    cls = space.integrators()[iname]
    rho, p = 1.0, 1.0
    V, fams = bc2d_families(rho, M, ang, p)
    fam = [f for f in fams if f[0] == famname]
    if not fam:
        return []
    model = space.euler.euler2d(gamma=G)
    msh = space.mesh2.mesh2d(3, 2, 2.0, 0.75)
    disc = space.modeldisc.fvm2d(model, msh, space.recon(rname), fam[0][1], numflux=flux)
    q = model.prim2cons([np.full(6, rho), V * np.ones((1, 6)), np.full(6, p)])
    f = space.field.fdata(model, msh, [np.asarray(x, float).copy() for x in q])
    with np.errstate(all="ignore"), core.time_limit(5.0):
        o = cls(msh, disc).solve(f, 0.4, stop={"maxit": 3}, directives={"dtlocal": True} if dtlocal else {})
    out = []
    if res is not None:
        res.transitions += 1
        res.evals += 1
    g = o.solutions[-1]
    sc = max(np.abs(np.asarray(x)).max() for x in q)
    err = max(np.abs(np.asarray(a) - np.asarray(b)).max() for a, b in zip(g.data, q)) / sc
    tol = 256 * EPS * fam[0][2] * 4
    if res is not None and np.isfinite(err):
        res.worst("solve2d", err / tol)
    if not err <= tol:
        out.append(("C03/solve2d/%s/%s/%s" % (iname, flux, famname), "%s %s %s Mach %g angle %g boundaries %s dtlocal=%s: the uniform state drifts by %.3g after 3 iterations" % (
            iname, flux, rname, M, ang, famname, dtlocal, err)))
    return out


def shard_solve_2d(arg):
    iname, flux, rname = arg
    res = core.Res()
    for M, ang in ((0.0, 0), (0.3, 0), (0.9, 225), (1.5, 30), (1.5, 90), (3.0, 180), (0.3, 270)):
        _, fams = bc2d_families(1.0, M, ang, 1.0)
        for famname, _, _ in fams:
            for dtl in (False, True):
                res.nontrivial += 1
                for s, w in check_solve_2d(iname, flux, rname, M, ang, famname, dtl, res):
                    res.violation(s, w, {"kind": "solve2d", "integrator": iname, "flux": flux, "recon": rname, "M": M, "ang": ang, "fam": famname, "dtlocal": dtl})
    return res


def run(ctx):
    th = ctx.thorough
    recs = space.X1_ALL if th else space.X1_SHORT
    cfg = []
    gammas = [5.0 / 3.0] + ([1.1, 2.0] if th else [])      # secondary parameter: the same space for other specific-heat ratios (first-order + 2 schemes)
    for gam in gammas:
        for flux in space.fluxes(space.euler.euler1d()):
            for r in ("extrapol1", "extrapol3", "muscl:vanalbada"):
                cfg.append(("euler1d@%r" % gam, flux, r, ctx.tier))
    for mname, spec in (("euler1d", ("euler1d", G)), ("nozzle-const", None), ("nozzle-parab", None), ("nozzle-bump", None), ("nozzle-lin", None), ("nozzle-bump_m", None),
                        ("shallowwater", ("shallowwater", 9.81)), ("convection", ("convection", 1.0)), ("burgers", ("burgers",))):
        model = space.make_model(spec if spec else ("nozzle", mname.split("-")[1], G))
        for flux in space.fluxes(model):
            if mname.startswith("nozzle") and flux in ("centeredflux",):
                continue
            for r in recs:
                cfg.append((mname, flux, r, ctx.tier))
    if not th:
        cfg += [(mname, flux, r, ctx.tier) for r in space.X1_REST for mname, flux in (("convection", None), ("euler1d", "hllc"))]
    cfg.sort(key=lambda c: c[0] != "euler1d")
    ctx.pmap("operator-1d", shard_op1d, cfg)
    first = {}
    for c in cfg:
        first.setdefault((c[0], c[2]), c)
    ctx.pmap("operator-1d-reused-objects", core.Pooled(shard_op1d), list(first.values()) if not th else cfg)
    ctx.pmap("operator-2d", shard_op2d, [(fl, r, ctx.tier) for fl in space.fluxes(space.euler.euler2d()) for r in space.X2_ALL])
    cfg3 = [(i, s) for i in space.integrators() for s in range(len(SOLVE_SYS))]
    cfg3.sort(key=lambda c: not space.is_implicit(space.integrators()[c[0]]))
    ctx.pmap("solve-1d", shard_solve, cfg3)
    ctx.pmap("solve-2d", shard_solve_2d, [(i, fl, r) for i in space.explicit_integrators() for fl in ("hlle", "centered")
                                          for r in ("extrapol2d1", "extrapol2dk:0.3333333333333333")])


def _tup(x):
    return tuple(_tup(y) for y in x) if isinstance(x, list) else x


def replay(case):
    k = case["kind"]
    if k == "op1d":
        bcs = tuple(b if isinstance(b, str) else (b[0], b[1]) for b in case["bcs"])
        return check_op_1d(case["model"], tuple(case["spec"]), case["flux"], case["recon"], _tup(case["mesh"]), bcs, tuple(case["state"]), case["cond"])
    if k == "op2d":
        return check_op_2d(case["flux"], case["recon"], tuple(case["grid"]), case["rho"], case["M"], case["ang"], case["p"], case["fam"])
    if k == "solve":
        return check_solve(case["integrator"], case["sys"], case["dtlocal"], _tup(case["mesh"]))
    return check_solve_2d(case["integrator"], case["flux"], case["recon"], case["M"], case["ang"], case["fam"], case["dtlocal"])
