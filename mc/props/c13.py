"""C13 - the 1D solver commutes with reflection and with change of units.

Shape B: every assignment of a cell-state alphabet to every width vector of
{1/2,1,2}^n (n<=3, thorough 4) x model x registered flux x reconstruction x every
boundary-condition name on either side: the real rhs of the mirror problem is the
mirror image of the real rhs.  Shape C: all 5-windows packed (interior, any mesh
size).  Shape A: 2 real solve iterations + 1 snapshot for every integrator class.
Units: a sub-lattice of power-of-two scale triples, bit for bit.
"""
import itertools

import numpy as np

from .. import core, pack, space

ID = "C13"
LEVEL = "exploration"
RULE = ("reflection: all assignments of a 3-5 letter alphabet to all width vectors {1/2,1,2}^n, n<=3 (thorough 4) x 7 models x every registered flux x 9-16 "
        "reconstructions x boundary sets containing every condition name on either side; all 5-windows over 4 letters packed with 3 width patterns; "
        "solve: every integrator class x 6 systems x all assignments on n=3, 2 iterations + 1 snapshot; units: 8 power-of-two triples (alpha,beta,l) "
        "x the same operator space on n=3 + solves. non-trivial = data not mirror-symmetric / scale triple != (1,1,1)")
ASSUMPTIONS = ["cell states between alphabet letters are not explored",
               "reflection tolerance 64 eps x max|F|/min dx (two different floating-point programs); implicit classes 1e-6(1+CFL)",
               "units: bitwise for rhs and explicit integrators with non-regularised reconstructions; vanalbada/vanleer to 64 eps + 1e-20/slope^2; implicit classes 1e-6 (LAPACK pivoting is not scale-equivariant)",
               "faces with non-positive reconstructed density/pressure/depth, and boundary states outside their regime (NaN), make a case inadmissible: it must be inadmissible on both sides"]
EPS = np.finfo(float).eps
K = 64.0

# cons parity under x -> -x
PARITY = {"convection": [1.0], "burgers": [-1.0], "shallowwater": [1.0, -1.0], "euler1d": [1.0, -1.0, 1.0]}
MODELS = {
    "convection+": (("convection", 1.0), "convection"), "convection-": (("convection", -1.5), "convection"), "burgers": (("burgers",), "burgers"),
    "shallowwater": (("shallowwater", 9.81), "shallowwater"), "euler1d": (("euler1d", 1.4), "euler1d"),
    "nozzle-bump": (("nozzle", "bump", 1.4), "euler1d"), "nozzle-lin": (("nozzle", "lin", 1.4), "euler1d"),
}
# secondary parameters (other gamma, g, convection speed): enumerated in the thorough tier
EXTRA = {"euler1d-g5/3": (("euler1d", 5.0 / 3.0), "euler1d"), "euler1d-g1.1": (("euler1d", 1.1), "euler1d"),
         "shallowwater-g1": (("shallowwater", 1.0), "shallowwater"), "convection-slow": (("convection", 1e-3), "convection")}
MODELS.update(EXTRA)
PAR = {"ptot": 3.0, "rttot": 1.5, "p": 0.9}


def mirror_spec(spec):
    if spec[0] == "convection":
        return ("convection", -spec[1])
    if spec[0] == "nozzle":
        return ("nozzle", space.LAW_MIRROR[spec[1]], spec[2])
    return spec


def mirror_bc(kind, bc):
    if isinstance(bc, str):
        return bc
    name, par = bc
    if name == "dirichlet":
        return (name, [p * s for p, s in zip(par, PARITY[kind])])
    return bc


def bc_sets(kind):
    if kind == "convection":
        return [("per", "per"), (("dirichlet", [1.5]), ("dirichlet", [-0.5]))]
    if kind == "burgers":
        return [("per", "per"), (("dirichlet", [1.5]), ("dirichlet", [-0.5])), (("dirichlet", [-2.0]), ("dirichlet", [1.0]))]
    if kind == "shallowwater":
        return [("per", "per"), ("sym", "sym"), (("dirichlet", [1.2, 0.3]), "sym"), ("inf", ("dirichlet", [0.8, -0.4])), ("sym", "inf")]
    e = lambda n: (n, PAR)
    return [("per", "per"), ("sym", "sym"), (("dirichlet", [1.1, 0.2, 0.9]), ("dirichlet", [0.9, -0.3, 1.2])),
            (e("insub"), e("outsub")), (e("insub_cbc"), e("outsub_nrcbc")), (e("insup"), e("outsup")), (e("outsub_qtot"), e("outsub_rh")),
            (e("outsub_prim"), "sym"), (e("insub"), e("outsub_qtot")), (e("outsub_rh"), e("insub_cbc")), (e("outsub_nrcbc"), e("insup"))]


def bc_tag(b):
    return b if isinstance(b, str) else b[0]


def admissible_faces(kind, disc):
    pos = [0, 2] if kind == "euler1d" else ([0] if kind == "shallowwater" else [])
    return all(np.all(np.asarray(disc.pL[k]) > 0) and np.all(np.asarray(disc.pR[k]) > 0) for k in pos)


def flux_scales(kind, model, disc):
    """per-face magnitude of the terms that make up the numerical flux (as in C02: rho_max s_max^k), from the reconstructed face states;
    the flux itself may be much smaller by cancellation (wall faces, states at rest)"""
    pL = [np.abs(np.asarray(x, float)) for x in disc.pL]
    pR = [np.abs(np.asarray(x, float)) for x in disc.pR]
    with np.errstate(all="ignore"):
        if kind == "euler1d":
            g = model.gamma
            cL, cR = np.sqrt(g * pL[2] / pL[0]), np.sqrt(g * pR[2] / pR[0])
            sm = np.maximum(pL[1] + cL, pR[1] + cR)
            rm = np.maximum(pL[0], pR[0])
            rH = np.maximum(pL[0] * (cL * cL / (g - 1) + 0.5 * pL[1] ** 2), pR[0] * (cR * cR / (g - 1) + 0.5 * pR[1] ** 2))
            return [rm * sm, rm * sm * sm, sm * rH]
        if kind == "shallowwater":
            g = model.g
            sm = np.maximum(pL[1] + np.sqrt(g * pL[0]), pR[1] + np.sqrt(g * pR[0]))
            hm = np.maximum(pL[0], pR[0])
            return [hm * sm, hm * sm * sm]
        if kind == "convection":
            return [abs(model.convcoef) * np.maximum(pL[0], pR[0])]
        return [np.maximum(pL[0], pR[0]) ** 2]


def rhs_pair(mname, flux, rname, xf, bcs, data):
    """real rhs of the problem and of its mirror image; data: list of cons arrays"""
    spec, kind = MODELS[mname]
    par = PARITY[kind]
    mesh = space.mesh_from_faces(xf)
    model, disc = space.build_1d(spec, flux, rname, mesh, bcs[0], bcs[1])
    meshm = space.mesh_from_faces(-np.asarray(xf)[::-1])
    modelm, discm = space.build_1d(mirror_spec(spec), flux, rname, meshm, mirror_bc(kind, bcs[1]), mirror_bc(kind, bcs[0]))
    f = space.field.fdata(model, mesh, [d.copy() for d in data])
    fm = space.field.fdata(modelm, meshm, [s * d[::-1].copy() for s, d in zip(par, data)])
    with np.errstate(all="ignore"):
        R = [np.asarray(r, float) for r in disc.rhs(f)]
        Rm = [np.asarray(r, float) for r in discm.rhs(fm)]
    return kind, par, disc, discm, R, Rm, mesh


def check_reflect_op(mname, flux, rname, wv, bcs, idx, strength, res=None):
    spec, kind = MODELS[mname]
    al = space.cons_alphabet(kind, strength)
    xf = np.concatenate([[-0.75], -0.75 + np.cumsum(wv)])
    data = [np.array([al[i][k] for i in idx], float) for k in range(len(PARITY[kind]))]
    kind, par, disc, discm, R, Rm, mesh = rhs_pair(mname, flux, rname, xf, bcs, data)
    out = []
    site = "C13/reflect/op/%s/%s/%s/%s-%s" % (mname, flux or "builtin", "unlimited" if space.recon_kappa(rname) is not None else rname.replace(":", "-"),
                                              bc_tag(bcs[0]), bc_tag(bcs[1]))
    okA, okB = admissible_faces(kind, disc), admissible_faces(kind, discm)
    finA = all(np.all(np.isfinite(r)) for r in R)
    finB = all(np.all(np.isfinite(r)) for r in Rm)
    if not (okA and okB and finA and finB):
        if (okA and finA) != (okB and finB):
            out.append((site + "/admissibility-differs", "%s %s %s widths %r bc %s-%s data %r: the problem is %s, its mirror image %s" % (
                mname, flux, rname, wv, bc_tag(bcs[0]), bc_tag(bcs[1]), idx, "finite" if okA and finA else "inadmissible/non-finite", "finite" if okB and finB else "inadmissible/non-finite")))
        elif res is not None:
            res.skipped += 1
        return out
    dxmin = float(np.min(wv))
    SA, SB = flux_scales(kind, disc.model, disc), flux_scales(kind, discm.model, discm)
    for q in range(len(par)):
        want = par[q] * R[q][::-1]
        sc = max(np.nanmax(SA[q]), np.nanmax(SB[q])) / dxmin + max(np.abs(R[q]).max(), np.abs(Rm[q]).max()) + 1e-300
        err = np.abs(Rm[q] - want).max() / sc / EPS
        if res is not None:
            res.worst("reflect-op/eps", err)
        if not err <= K:
            out.append((site + "/eq%d" % q, "%s %s %s widths %r bc %s-%s data %r: rhs of the mirror problem differs from the mirrored rhs by %.3g eps (eq %d): %r vs %r"
                        % (mname, flux, rname, wv, bc_tag(bcs[0]), bc_tag(bcs[1]), idx, err, q, Rm[q].tolist(), want.tolist())))
    return out


def shard_reflect(arg):
    mname, flux, rname, tier = arg
    res = core.Res()
    spec, kind = MODELS[mname]
    strength = "mild" if space.recon_kappa(rname) is not None else "strong"
    ns = (1, 2, 3, 4) if tier == "thorough" else (1, 2, 3)
    for n in ns:
        L = {1: 5, 2: 4, 3: 3, 4: 2}[n]
        wvs = space.width_vectors(n)
        if n == 4:
            wvs = wvs[::4]
        for wv in wvs:
            for bcs in bc_sets(kind):
                for idx in itertools.product(range(L), repeat=n):
                    res.evals += 1
                    if idx != idx[::-1] or wv != wv[::-1] or bcs[0] != bcs[1]:
                        res.nontrivial += 1
                    for s, w in check_reflect_op(mname, flux, rname, wv, bcs, idx, strength, res):
                        res.violation(s, w, {"kind": "op", "model": mname, "flux": flux, "recon": rname, "widths": list(wv), "bcs": bcs, "idx": list(idx),
                                             "strength": strength})
    # the problem and its mirror image built with ONE reconstruction object (and nothing else shared), on meshes that are not their own mirror
    # image: what a user comparing the two runs writes; geometry remembered from the first of the two meshes must not serve the second
    if not space.POOL["on"]:
        for wv in ((0.5, 2.0, 1.0), (2.0, 0.5), (1.0, 0.5, 0.5, 2.0)):
            n = len(wv)
            for bcs in bc_sets(kind)[:3]:
                for idx in itertools.product(range(3 if n < 4 else 2), repeat=n):
                    res.evals += 1
                    res.nontrivial += 1
                    space.pool_reset(True)
                    try:
                        v = check_reflect_op(mname, flux, rname, wv, bcs, idx, strength, res)
                    finally:
                        space.pool_reset(False)
                    for s, w in v:
                        res.violation(s.replace("C13/reflect/op/", "C13/reflect/op/one-reconstruction-object-for-both/"), w, {"kind": "op", "model": mname, "flux": flux, "recon": rname,
                                                                                                                       "widths": list(wv), "bcs": bcs, "idx": list(idx), "strength": strength, "shared": True})
    res.sample({"model": mname, "flux": flux, "recon": rname, "widths": [0.5, 2.0, 1.0], "bc": [bc_tag(bc_sets(kind)[-1][0]), bc_tag(bc_sets(kind)[-1][1])],
                "data_letters": [0, 2, 1]}, cap=1)
    return res


def shard_reflect_sizes(arg):
    """size ladder: n in {6,7,8,13,16,33} x 2 width patterns x boundary sets x all cyclic translates of the base patterns"""
    mname, flux, rname, tier = arg
    res = core.Res()
    spec, kind = MODELS[mname]
    strength = "mild" if space.recon_kappa(rname) is not None else "strong"
    for n in space.SIZES:
        for wv in (tuple([0.5] * n), tuple((0.5, 1.0, 2.0, 1.0, 0.5)[i % 5] for i in range(n))):
            for bcs in bc_sets(kind)[:5]:
                for idx in space.pattern_assignments(n, 3):
                    res.evals += 1
                    res.nontrivial += 1
                    for s, w in check_reflect_op(mname, flux, rname, wv, bcs, idx, strength, res):
                        res.violation(s.replace("C13/reflect/op/", "C13/reflect/op/larger-mesh/"), w, {"kind": "op", "model": mname, "flux": flux, "recon": rname, "widths": list(wv),
                                                                                                         "bcs": bcs, "idx": list(idx), "strength": strength, "larger": True})
    return res


# ---------------------------------------------------------------------------
def check_reflect_windows(mname, flux, rname, pattern, res=None):
    spec, kind = MODELS[mname]
    par = PARITY[kind]
    strength = "mild" if space.recon_kappa(rname) is not None else "strong"
    al = np.array(space.cons_alphabet(kind, strength)[:4])
    w = 5
    W = pack.windows(4, w)
    n = W.shape[0]
    cells = al[W.ravel()]
    widths = np.tile(np.asarray(pattern, float), n)
    xf = np.concatenate([[0.0], np.cumsum(widths)])
    data = [cells[:, q].copy() for q in range(len(par))]
    kind, par, disc, discm, R, Rm, mesh = rhs_pair(mname, flux, rname, xf, ("per", "per"), data)
    c = pack.centres(n, w)
    out = []
    N = 5 * n
    pos = [0, 2] if kind == "euler1d" else ([0] if kind == "shallowwater" else [])
    okw = np.ones(n, bool)
    for k in pos:
        for arr in (np.asarray(disc.pL[k]), np.asarray(disc.pR[k])):
            okw &= (arr[c] > 0) & (arr[c + 1] > 0)
    SW = flux_scales(kind, disc.model, disc)
    for q in range(len(par)):
        want = par[q] * R[q][::-1]
        diff = np.abs(Rm[q] - want)[N - 1 - c]
        Fq = SW[q]
        sc = np.maximum(Fq[c], Fq[c + 1]) / float(np.min(pattern)) + np.abs(R[q][c]) + 1e-300
        fin = np.isfinite(diff) & okw
        err = np.where(fin, diff / sc / EPS, 0.0)
        if res is not None:
            res.evals += n
            res.skipped += int(np.sum(~fin))
            res.worst("reflect-window/eps", err.max())
        for i in np.flatnonzero(err > K)[:10]:
            out.append(("C13/reflect/window/%s/%s/%s/eq%d" % (mname, flux or "builtin", "unlimited" if space.recon_kappa(rname) is not None else rname.replace(":", "-"), q),
                        "%s %s %s width pattern %r window letters %r: centre residual of the mirror problem differs by %.3g eps" % (mname, flux, rname, pattern, W[i].tolist(), err[i])))
    if res is not None:
        res.nontrivial += int(np.sum(np.any(W != W[:, ::-1], axis=1)))
    return out


def shard_windows(arg):
    mname, flux, rname = arg
    res = core.Res()
    for pattern in ((1.0, 1.0, 1.0, 1.0, 1.0), (0.5, 1.0, 2.0, 1.0, 0.5), (2.0, 0.5, 1.0, 1.0, 0.5)):
        for s, w in check_reflect_windows(mname, flux, rname, pattern, res):
            res.violation(s, w, {"kind": "win", "model": mname, "flux": flux, "recon": rname, "pattern": list(pattern)})
    return res


# ---------------------------------------------------------------------------
SYSTEMS = [("convection-", None, "extrapol3", ("per", "per")), ("convection+", None, "muscl:vanleer", (("dirichlet", [1.5]), ("dirichlet", [-0.5]))),
           ("burgers", None, "muscl:minmod", ("per", "per")), ("shallowwater", "hll", "muscl:vanalbada", ("sym", ("dirichlet", [0.8, -0.4]))),
           ("euler1d", "hllc", "muscl:superbee", (("insub", PAR), ("outsub", PAR))), ("euler1d", "hlle", "extrapol2", ("sym", ("outsub_nrcbc", PAR))),
           ("nozzle-bump", "hllc", "extrapol1", (("insub_cbc", PAR), ("outsub_rh", PAR)))]


def generic_alphabet(kind):
    """distinct values without ties: no equal neighbours, no equal or commensurate slopes, no rest or sonic state"""
    if kind in ("convection", "burgers"):
        return [np.array([v]) for v in (0.731, -1.294, 2.117)]
    if kind == "euler1d":
        out = []
        for r, m, p in ((1.07, 0.23, 1.13), (1.61, -0.41, 0.87), (0.83, 0.62, 1.39)):
            rr, u, pp = space.euler_state(r, m, p)
            out.append(np.array([rr, rr * u, pp / 0.4 + 0.5 * rr * u * u]))
        return out
    return [np.array([h, h * space.sw_state(h, f)[1]]) for h, f in ((1.07, 0.23), (1.61, -0.41), (0.83, 0.62))]


def nonsmooth_at(disc, f):
    """True when the one-sided derivatives of the real space operator differ at this state (limiter or upwind-flux tie):
    forward and backward finite-difference Jacobians disagree by more than 1e-4 of the largest entry"""
    n = f.nelem
    cols = []
    for sgn in (1.0, -1.0):
        J = []
        with np.errstate(all="ignore"):
            r0 = np.concatenate([np.asarray(r, float) for r in disc.rhs(f)])
            for q in range(f.neq):
                h = 1e-7 * (np.abs(f.data[q]).max() + 1e-300)
                for i in range(n):
                    g = f.copy()
                    g.data[q][i] += sgn * h
                    J.append((np.concatenate([np.asarray(r, float) for r in disc.rhs(g)]) - r0) / (sgn * h))
        cols.append(np.array(J))
    if not (np.all(np.isfinite(cols[0])) and np.all(np.isfinite(cols[1]))):
        return True
    return bool(np.abs(cols[0] - cols[1]).max() > 1e-4 * (np.abs(cols[0]).max() + 1e-300))


def solve_pair(iname, sysi, wv, idx, cfl=0.3, generic=False):
    mname, flux, rname, bcs = SYSTEMS[sysi]
    spec, kind = MODELS[mname]
    par = PARITY[kind]
    cls = space.integrators()[iname]
    al = generic_alphabet(kind) if generic else space.cons_alphabet(kind, "mild")
    xf = np.concatenate([[-0.75], -0.75 + np.cumsum(wv)])
    data = [np.array([al[i][k] for i in idx], float) for k in range(len(par))]
    mesh = space.mesh_from_faces(xf)
    model, disc = space.build_1d(spec, flux, rname, mesh, bcs[0], bcs[1])
    meshm = space.mesh_from_faces(-xf[::-1])
    modelm, discm = space.build_1d(mirror_spec(spec), flux, rname, meshm, mirror_bc(kind, bcs[1]), mirror_bc(kind, bcs[0]))
    f = space.field.fdata(model, mesh, [d.copy() for d in data])
    fm = space.field.fdata(modelm, meshm, [s * d[::-1].copy() for s, d in zip(par, data)])
    with np.errstate(all="ignore"):
        dt0 = float(np.min(disc.calc_timestep(f, cfl)))
        ts = [0.4 * dt0]
        with core.time_limit(5.0):
            # a run with a snapshot returns only the snapshot; the state after the 2 full iterations comes from a second run without save times
            a = cls(mesh, disc).solve(f, cfl, ts, stop={"maxit": 2, "tottime": 1e30})
            b = cls(meshm, discm).solve(fm, cfl, ts, stop={"maxit": 2, "tottime": 1e30})
            a.extend(cls(mesh, disc).solve(f, cfl, stop={"maxit": 2}))
            b.extend(cls(meshm, discm).solve(fm, cfl, stop={"maxit": 2}))
            # and with every cell advanced by its own step (the mirror image of a local-time-step run is the local-time-step run of the mirror image)
            # (not where a local step is infinite - Burgers cells at rest: the known finding recorded under C03)
            if np.all(np.isfinite(np.asarray(disc.calc_timestep(f, cfl), float))):
                a.extend(cls(mesh, disc).solve(f, cfl, stop={"maxit": 2}, directives={"dtlocal": True}))
                b.extend(cls(meshm, discm).solve(fm, cfl, stop={"maxit": 2}, directives={"dtlocal": True}))
    solve_pair.last = (disc, f, cls, mesh)
    return kind, par, a, b, cls


def check_reflect_solve(iname, sysi, wv, idx, res=None, generic=False):
    mname, flux, rname, bcs = SYSTEMS[sysi]
    out = []
    site = "C13/reflect/solve/%s/%s" % (iname, mname)
    try:
        kind, par, a, b, cls = solve_pair(iname, sysi, wv, idx, generic=generic)
    except Exception as e:
        return [(site + "/exception", "%s on system %d widths %r data %r raised %r" % (iname, sysi, wv, idx, e))]
    if res is not None:
        res.transitions += 2
    impl = space.is_implicit(cls)
    tol = 1e-6 * 2 if impl else 512 * EPS

    def kink_on_the_way():
        # the linearised implicit classes differentiate the space operator by one-sided finite differences: where the operator has
        # a kink (certified here on the real rhs: forward and backward difference Jacobians disagree) mirror symmetry cannot hold;
        # looked for at the initial state and at the states after the first iteration (global and local steps)
        disc0, f0, cls0, mesh0 = solve_pair.last
        if nonsmooth_at(disc0, f0):
            return True
        for direc in ({}, {"dtlocal": True}):
            with np.errstate(all="ignore"):
                q1 = cls0(mesh0, disc0).solve(f0, 0.3, stop={"maxit": 1}, directives=direc)[-1]
            if all(np.all(np.isfinite(d)) for d in q1.data) and nonsmooth_at(disc0, q1):
                return True
        return False
    if len(a.solutions) != len(b.solutions):
        return [(site + "/snapshots", "different number of returned fields %d vs %d" % (len(a.solutions), len(b.solutions)))]
    for ga, gb in zip(a.solutions, b.solutions):
        finA = all(np.all(np.isfinite(d)) for d in ga.data) and np.isfinite(ga.time)
        finB = all(np.all(np.isfinite(d)) for d in gb.data) and np.isfinite(gb.time)
        if not (finA and finB):
            # a run that leaves the admissible set (unlimited reconstruction, linearised implicit step) is chaotic at round-off level:
            # counted, not judged (the operator-level check judges admissibility on both sides)
            if res is not None:
                res.skipped += 1
            break
        # the time after two iterations depends on the state after the first one: same tolerance as the data
        if not abs(ga.time - gb.time) <= (tol if impl else 64 * EPS) * max(abs(ga.time), 1e-300):
            s_ = "C13/reflect/solve/implicit-classes/one-sided-fd-jacobian-at-kink-of-the-operator" if (impl and kink_on_the_way()) else site + "/time"
            out.append((s_, "%s %s %s %s widths %r data %r: times %r vs %r" % (iname, mname, flux, rname, wv, idx, ga.time, gb.time)))
            break
        for q in range(len(par)):
            want = par[q] * ga.data[q][::-1]
            sc = max(np.abs(d).max() for d in ga.data) if kind != "euler1d" else max(np.abs(ga.data[q]).max(), 1e-300) + np.abs(ga.data[0]).max()
            err = np.abs(gb.data[q] - want).max() / sc
            if res is not None:
                res.evals += 1
                res.worst("reflect-solve/" + ("implicit" if impl else "explicit"), err / tol)
            if not err <= tol:
                tie = impl and kink_on_the_way()
                s_ = "C13/reflect/solve/implicit-classes/one-sided-fd-jacobian-at-kink-of-the-operator" if tie else site + "/eq%d" % q
                out.append((s_, "%s %s %s %s widths %r data %r: mirror solution differs from the mirrored solution by %.3g (t=%r)" % (
                    iname, mname, flux, rname, wv, idx, err, ga.time)))
                return out
    return out


def shard_solve(arg):
    iname, sysi, tier = arg
    res = core.Res()
    for wv in ((1.0, 1.0, 1.0), (0.5, 2.0, 1.0)):
        for idx in itertools.product(range(3), repeat=3):
            if idx == idx[::-1] and len(set(idx)) == 1:
                continue
            res.nontrivial += 1
            for s, w in check_reflect_solve(iname, sysi, wv, idx, res):
                res.violation(s, w, {"kind": "solve", "integrator": iname, "sys": sysi, "widths": list(wv), "idx": list(idx)})
        if space.is_implicit(space.integrators()[iname]):
            # generic data (no ties): the operator is differentiable there and the implicit classes must commute with reflection too
            for idx in itertools.permutations(range(3)):
                res.nontrivial += 1
                for s, w in check_reflect_solve(iname, sysi, wv, idx, res, generic=True):
                    res.violation(s, w, {"kind": "solve", "integrator": iname, "sys": sysi, "widths": list(wv), "idx": list(idx), "generic": True})
    res.sample({"integrator": iname, "system": list(SYSTEMS[sysi][:3]), "widths": [0.5, 2.0, 1.0], "data_letters": [0, 1, 2], "ops": ["solve(maxit=2, save=[0.4 dt])"]}, cap=1)
    return res


# ---------------------------------------------------------------------------
# change of units
SCALES = [(8.0, 0.25, 32.0), (2.0 ** 20, 1.0, 1.0), (1.0, 2.0 ** -20, 1.0), (1.0, 1.0, 2.0 ** 20), (0.25, 32.0, 8.0), (2.0 ** -20, 2.0 ** 20, 2.0 ** -20),
           (32.0, 8.0, 0.25), (1.0, 2.0, 1.0)]
# vanalbada / vanleer carry an absolute regularisation (1e-20 on squared slopes, 1e-40 on their product): the relative deviation from exact
# scaling is 1e-20/slope^2, so only moderate factors keep it at round-off level (slopes of order 1e-3..1e3)
SCALES_REG = [(8.0, 0.25, 32.0), (0.25, 32.0, 8.0), (32.0, 8.0, 0.25), (1.0, 2.0, 1.0)]


def scaled_problem(mname, flux, rname, xf, bcs, data, sc):
    """returns (model, disc, field, residual factors, time factor) of the problem expressed in units scaled by (alpha, beta, l)"""
    al, be, l = sc
    spec, kind = MODELS[mname]
    if kind == "convection":          # u*alpha, a*beta, x*l
        spec2 = ("convection", spec[1] * be)
        fac = [al]
        pfac = [al]
    elif kind == "burgers":           # u*beta
        spec2 = spec
        fac = [be]
        pfac = [be]
    elif kind == "shallowwater":      # h*alpha, u*beta, g*beta^2/alpha
        spec2 = ("shallowwater", spec[1] * be * be / al)
        fac = [al, al * be]
        pfac = [al, be]
    else:                             # rho*alpha, u*beta, p*alpha*beta^2
        spec2 = spec
        fac = [al, al * be, al * be * be]
        pfac = [al, be, al * be * be]

    def sbc(bc):
        if isinstance(bc, str):
            return bc
        name, par = bc
        if name == "dirichlet":
            return (name, [p * f for p, f in zip(par, pfac)])
        return (name, {"ptot": par["ptot"] * al * be * be, "rttot": par["rttot"] * be * be, "p": par["p"] * al * be * be})
    mesh = space.mesh_from_faces(np.asarray(xf) * l)
    if spec2[0] == "nozzle":
        law = space.SECTION_LAWS[spec2[1]]
        model = space.euler.nozzle(lambda x: law(x / l), gamma=spec2[2])
        disc = space.modeldisc.fvm(model, mesh, space.recon(rname), numflux=flux, bcL=space.bc_dict(sbc(bcs[0])), bcR=space.bc_dict(sbc(bcs[1])))
    else:
        model, disc = space.build_1d(spec2, flux, rname, mesh, sbc(bcs[0]), sbc(bcs[1]))
    f = space.field.fdata(model, mesh, [d * k for d, k in zip(data, fac)])
    speed = be if kind != "convection" else be
    return model, disc, f, fac, l / speed


def check_units_op(mname, flux, rname, wv, bcs, idx, res=None):
    spec, kind = MODELS[mname]
    strength = "mild"
    al = space.cons_alphabet(kind, strength)
    xf = np.concatenate([[-0.75], -0.75 + np.cumsum(wv)])
    data = [np.array([al[i][k] for i in idx], float) for k in range(len(PARITY[kind]))]
    out = []
    reg = rname in ("muscl:vanalbada", "muscl:vanleer")
    site = "C13/units/op/%s/%s/%s/%s-%s" % (mname, flux or "builtin", "unlimited" if space.recon_kappa(rname) is not None else rname.replace(":", "-"),
                                            bc_tag(bcs[0]), bc_tag(bcs[1]))
    model, disc, f, fac0, tf0 = scaled_problem(mname, flux, rname, xf, bcs, data, (1.0, 1.0, 1.0))
    with np.errstate(all="ignore"):
        R0 = [np.asarray(r, float).copy() for r in disc.rhs(f)]
        dt0 = np.asarray(disc.calc_timestep(f, 0.5), float)
    for sc in (SCALES_REG if reg else SCALES):
        m2, d2, f2, fac, tf = scaled_problem(mname, flux, rname, xf, bcs, data, sc)
        with np.errstate(all="ignore"):
            R = [np.asarray(r, float) for r in d2.rhs(f2)]
            dt = np.asarray(d2.calc_timestep(f2, 0.5), float)
        if res is not None:
            res.evals += 1
        for q in range(len(fac)):
            want = R0[q] * (fac[q] / tf)
            same = np.array_equal(R[q], want, equal_nan=True)
            if res is not None:
                res.census["units-op/%s" % ("bitwise" if same else "not-bitwise")] += 1
            if same:
                continue
            if reg and np.all(np.isfinite(R[q]) == np.isfinite(want)):
                scl = np.nanmax(np.abs(want)) + 1e-300
                if np.nanmax(np.abs(R[q] - want)) <= 64 * EPS * scl * 64:
                    continue
            out.append((site + "/eq%d" % q, "%s %s %s widths %r bc %s-%s data %r units (rho,u,x)x%r: rhs is not the rescaled rhs: %r vs %r" % (
                mname, flux, rname, wv, bc_tag(bcs[0]), bc_tag(bcs[1]), idx, sc, R[q].tolist(), want.tolist())))
            break
        if not np.array_equal(dt, dt0 * tf, equal_nan=True):
            out.append((site + "/timestep", "%s units x%r: time step is not rescaled by l/beta: %r vs %r" % (mname, sc, dt.tolist(), (dt0 * tf).tolist())))
        if out:
            break
    return out


def shard_units(arg):
    mname, flux, rname, tier = arg
    res = core.Res()
    spec, kind = MODELS[mname]
    for wv in space.width_vectors(3)[::(2 if tier == 'thorough' else 6)] + [(1.0,), (0.5, 2.0)]:
        n = len(wv)
        for bcs in bc_sets(kind):
            for idx in itertools.product(range(3), repeat=n):
                res.nontrivial += 1
                for s, w in check_units_op(mname, flux, rname, wv, bcs, idx, res):
                    res.violation(s, w, {"kind": "units", "model": mname, "flux": flux, "recon": rname, "widths": list(wv), "bcs": bcs, "idx": list(idx)})
    res.sample({"model": mname, "flux": flux, "recon": rname, "scale_triples": [list(s) for s in SCALES[:2]], "widths": [0.5, 2.0, 1.0], "data_letters": [0, 1, 2]}, cap=1)
    return res


def check_units_solve(iname, sysi, idx, res=None):
    mname, flux, rname, bcs = SYSTEMS[sysi]
    spec, kind = MODELS[mname]
    cls = space.integrators()[iname]
    impl = space.is_implicit(cls)
    reg = rname in ("muscl:vanalbada", "muscl:vanleer")
    al = space.cons_alphabet(kind, "mild")
    wv = (0.5, 2.0, 1.0)
    xf = np.concatenate([[-0.75], -0.75 + np.cumsum(wv)])
    data = [np.array([al[i][k] for i in idx], float) for k in range(len(PARITY[kind]))]
    out = []
    site = "C13/units/solve/%s/%s" % (iname, mname)

    def run(sc):
        model, disc, f, fac, tf = scaled_problem(mname, flux, rname, xf, bcs, data, sc)
        with np.errstate(all="ignore"), core.time_limit(5.0):
            dt0 = float(np.min(disc.calc_timestep(f, 0.3)))
            o = cls(disc.mesh, disc).solve(f, 0.3, [0.4 * dt0], stop={"maxit": 2, "tottime": 1e30})
            o.extend(cls(disc.mesh, disc).solve(f, 0.3, stop={"maxit": 2}))
        return o, fac, tf
    try:
        base, fac0, tf0 = run((1.0, 1.0, 1.0))
        for sc in (SCALES_REG if reg else (SCALES[:4] if impl else SCALES)):
            o, fac, tf = run(sc)
            if res is not None:
                res.transitions += 1
                res.evals += 1
            for ga, gb in zip(base.solutions, o.solutions):
                if not (np.isfinite(ga.time) and np.isfinite(gb.time) and all(np.all(np.isfinite(d)) for d in ga.data)):
                    if res is not None:
                        res.skipped += 1
                    break
                if not (gb.time == ga.time * tf or abs(gb.time - ga.time * tf) <= (2e-6 if impl else (1e-12 if reg else 0.0)) * abs(gb.time)):
                    out.append((site + "/time", "units x%r: time %r vs %r" % (sc, gb.time, ga.time * tf)))
                    return out
                for q in range(len(fac)):
                    want = ga.data[q] * fac[q]
                    if np.array_equal(gb.data[q], want, equal_nan=True):
                        continue
                    if not (np.all(np.isfinite(want)) and np.all(np.isfinite(gb.data[q]))):
                        if res is not None:
                            res.skipped += 1
                        continue
                    err = np.abs(gb.data[q] - want).max() / (np.abs(want).max() + 1e-300)
                    tol = 2e-6 if impl else (1e-12 if reg else 0.0)
                    if not err <= tol:
                        out.append((site + "/eq%d" % q, "%s %s %s %s data %r units x%r: solution is not the rescaled solution (relative difference %.3g, %s expected)"
                                    % (iname, mname, flux, rname, idx, sc, err, "bitwise" if tol == 0 else "<= %g" % tol)))
                        return out
    except Exception as e:
        out.append((site + "/exception", "%s on system %d data %r raised %r" % (iname, sysi, idx, e)))
    return out


def shard_units_solve(arg):
    iname, sysi = arg
    res = core.Res()
    for idx in itertools.product(range(3), repeat=3):
        if len(set(idx)) == 1:
            continue
        res.nontrivial += 1
        for s, w in check_units_solve(iname, sysi, idx, res):
            res.violation(s, w, {"kind": "usolve", "integrator": iname, "sys": sysi, "idx": list(idx)})
    return res


def run(ctx):
    th = ctx.thorough
    recs = space.X1_ALL if th else space.X1_SHORT
    cfg = []
    for mname, (spec, kind) in MODELS.items():
        if mname in EXTRA and not th:
            continue
        model = space.make_model(spec)
        for flux in space.fluxes(model):
            for rname in recs:
                cfg.append((mname, flux, rname, ctx.tier))
    if not th:
        cfg += [(mname, flux, rname, ctx.tier) for rname in space.X1_REST for mname, flux in (("convection+", None), ("euler1d", "hllc")) if mname in MODELS]
    ctx.pmap("reflection-operator", shard_reflect, cfg)
    first = {}
    for c in cfg:
        first.setdefault((MODELS[c[0]][1], c[2]), c)
    ctx.pmap("reflection-operator-reused-objects", core.Pooled(shard_reflect), list(first.values()))
    ctx.pmap("reflection-operator-size-ladder", shard_reflect_sizes, [c for c in cfg if th or c[2] in ("extrapol1", "extrapol3", "muscl:vanleer", "muscl:superbee")])
    ctx.pmap("reflection-packed-windows", shard_windows, [(c[0], c[1], c[2]) for c in cfg if not c[0].startswith("nozzle")])
    names = list(space.integrators())
    cfg3 = [(i, s, ctx.tier) for i in names for s in range(len(SYSTEMS))]
    cfg3.sort(key=lambda c: not space.is_implicit(space.integrators()[c[0]]))
    ctx.pmap("reflection-solve", shard_solve, cfg3)
    ucfg = [c for c in cfg if c[2] in ("extrapol1", "extrapol3", "muscl:minmod", "muscl:superbee", "muscl:vanleer", "muscl:vanalbada", "extrapolk:0.7") or th]
    ctx.pmap("units-operator", shard_units, ucfg)
    cfg5 = [(i, s) for i in names for s in range(len(SYSTEMS))]
    cfg5.sort(key=lambda c: not space.is_implicit(space.integrators()[c[0]]))
    ctx.pmap("units-solve", shard_units_solve, cfg5)


def _bcs(b):
    return tuple(x if isinstance(x, str) else (x[0], x[1]) for x in b)


def replay(case):
    k = case["kind"]
    if k == "op" and case.get("shared"):
        space.pool_reset(True)
        try:
            v = check_reflect_op(case["model"], case["flux"], case["recon"], tuple(case["widths"]), _bcs(case["bcs"]), tuple(case["idx"]), case["strength"])
        finally:
            space.pool_reset(False)
        return [(s_.replace("C13/reflect/op/", "C13/reflect/op/one-reconstruction-object-for-both/"), w) for s_, w in v]
    if k == "op":
        v = check_reflect_op(case["model"], case["flux"], case["recon"], tuple(case["widths"]), _bcs(case["bcs"]), tuple(case["idx"]), case["strength"])
        return [(s_.replace("C13/reflect/op/", "C13/reflect/op/larger-mesh/") if case.get("larger") else s_, w) for s_, w in v]
    if k == "win":
        return check_reflect_windows(case["model"], case["flux"], case["recon"], tuple(case["pattern"]))
    if k == "solve":
        return check_reflect_solve(case["integrator"], case["sys"], tuple(case["widths"]), tuple(case["idx"]), generic=case.get("generic", False))
    if k == "units":
        return check_units_op(case["model"], case["flux"], case["recon"], tuple(case["widths"]), _bcs(case["bcs"]), tuple(case["idx"]))
    return check_units_solve(case["integrator"], case["sys"], tuple(case["idx"]))
