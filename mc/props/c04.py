"""C04 - solutions converge to exact solutions at the design order (limited claim).

Convergence is an asymptotic statement: a finite ladder can only refute it.  What
is decided here, exhaustively over stated lattices:
 E1 (exact, algebraic) the moments of the circulant operator read off the real rhs:
    order p <=> moments 0..p match those of -a d/dx and moment p+1 does not;
 E2 a mesh ladder of real solves on smooth periodic data for every reconstruction x
    high-order integrator x wavelength x phase x speed: observed order on the finest pair;
 E3 a mesh ladder of real solves for a lattice of Riemann problems and their mirror
    images x upwind flux x reconstruction x SSP integrator: L1 error ratio per
    refinement; the packaged reference solutions against an independent exact
    Riemann solver and against nozzle-flow identities.
"""
import itertools

import numpy as np

from .. import core, space
from ..ref import riemann as rs

ID = "C04"
LEVEL = "exploration"
RULE = ("E1: 12 linear reconstructions x a in {1,-1.5} x n=12 impulses; E2: sin(2 pi k x + phi), k in {1,2}, phi in {0,0.7}, a in {1,-0.5,2} x 16 reconstructions x "
        "{rk3ssp,rk4,lsrk4 (thorough: rk3_heun,lsrk26bb)} x n = 32k{1,2,4} (thorough 8); E3: W_L=(r,u_L,q), W_R=(1,u_R,1), r,q in {1,8,1/8}, (u_L,u_R) in 5 pairs with |u|<c on both sides, "
        "each with its mirror image, x {hlle,hllc} x {extrapol1, muscl x 4 (quick: 2)} x {rk3ssp (thorough: rk2_heun)} x n in {50,100,200 (thorough 400)}; packaged "
        "Riemann solution x 41 x/t per problem; nozzle reference x 8 NPR x 2 gamma x 2 meshes. non-trivial = every run (distinct configurations)")
ASSUMPTIONS = ["convergence is asymptotic: thresholds on a 3-4 level ladder (order >= design-0.2 and <= design+0.6; limited MUSCL >= 1.5; Riemann L1 ratio < 1 at every refinement and <= 0.9 on the finest pair) can refute, not prove",
               "E1 is exact for the linear schemes (finitely many moment conditions)", "exhaustive refers to the lattices above, not to the property"]
EPS = np.finfo(float).eps


# ---------------------------------------------------------------------------
# E1
def design_order(rname):
    if rname == "extrapol1":
        return 1
    k = space.recon_kappa(rname)
    if k is None:
        return 2       # muscl
    return 3 if abs(k - 1.0 / 3.0) < 1e-12 else 2


def check_moments(rname, a, res=None):
    n = 12
    mesh = space.mesh1.unimesh(ncell=n, length=float(n))
    model, disc = space.build_1d(("convection", a), None, rname, mesh)
    e = np.zeros(n)
    e[0] = 1.0
    col = np.asarray(disc.rhs(space.field.fdata(model, mesh, [e]))[0], float)     # R_i = c_{-i} (response at i to an impulse at 0)
    off = np.array([(i if i <= n // 2 else i - n) for i in range(n)])
    c = {int(-o): col[i] for i, o in zip(range(n), off)}        # stencil coefficient on u_{i+j}
    p = design_order(rname)
    out = []
    mom = [sum(cj * float(j) ** m for j, cj in c.items()) for m in range(p + 2)]
    want = [0.0, -a] + [0.0] * p
    if res is not None:
        res.evals += p + 2
    for m in range(p + 1):
        if not abs(mom[m] - want[m]) <= 64 * EPS * abs(a) * 3.0 ** m:
            out.append(("C04/moments/%s/order-below-design" % rname.replace(":", "-"), "%s a=%g: moment %d of the operator stencil is %r, -a d/dx has %r: order < %d" % (rname, a, m, mom[m], want[m], p)))
            break
    else:
        if abs(mom[p + 1]) <= 1e-6 * abs(a):
            if res is not None:
                res.census["moments/order-above-design/%s" % rname] += 1
    return out


# ---------------------------------------------------------------------------
# E2
def cellavg_sin(xf, k, phi, shift):
    w = 2 * np.pi * k
    F = -np.cos(w * (xf - shift) + phi) / w
    return (F[1:] - F[:-1]) / (xf[1:] - xf[:-1])


def sine_error(rname, iname, k, phi, a, n, T=0.3):
    mesh = space.mesh1.unimesh(ncell=n, length=1.0)
    model, disc = space.build_1d(("convection", a), None, rname, mesh)
    f = space.field.fdata(model, mesh, [cellavg_sin(mesh.xf, k, phi, 0.0)])
    with np.errstate(all="ignore"), core.time_limit(120.0):
        out = space.integrators()[iname](mesh, disc).solve(f, 0.2, [T])
    g = out[-1]
    if not abs(g.time - T) <= 1e-12:
        return np.nan
    return float(np.mean(np.abs(g.data[0] - cellavg_sin(mesh.xf, k, phi, a * T))))


def check_sine_reuse(rname, iname, res=None):
    """a user's convergence study: ONE reconstruction object for the whole study, refinement ladder outside, domains of length 1 and 3 inside
    (same number of cells, other cell size, k waves per domain); the order must be the design order on both domains"""
    num = space._recon(rname)
    ns = (32, 64, 128)
    k, phi, a, T = 1, 0.7, 1.0, 0.3
    errs = {1.0: [], 3.0: []}
    for n in ns:
        for L in (1.0, 3.0):
            mesh = space.mesh1.unimesh(ncell=n, length=L)
            model = space.convection.model(a)
            disc = space.modeldisc.fvm(model, mesh, num)
            f = space.field.fdata(model, mesh, [cellavg_sin(mesh.xf / L, k, phi, 0.0)])
            with np.errstate(all="ignore"), core.time_limit(120.0):
                g = space.integrators()[iname](mesh, disc).solve(f, 0.2, [T * L])[-1]
            errs[L].append(float(np.mean(np.abs(g.data[0] - cellavg_sin(mesh.xf / L, k, phi, a * T)))))
    p = design_order(rname)
    lo = 1.5 if rname.startswith("muscl") else p - 0.2
    out = []
    for L, e in errs.items():
        order = np.log2(e[-2] / e[-1]) if e[-1] > 0 else np.inf
        if res is not None:
            res.evals += len(ns)
            res.worst("sine-order-shortfall/reused-object", p - order)
        if not (np.all(np.isfinite(e)) and order >= lo):
            out.append(("C04/sine/%s/reused-reconstruction-object/order-too-low" % rname.replace(":", "-"),
                        "%s %s, one reconstruction object for the whole study: domain length %g, L1 errors %r on n=%r, observed order %.2f < %.2f (design %d)" % (rname, iname, L, e, list(ns), order, lo, p)))
    return out


def check_sine_refined(rname, iname, res=None):
    """the same study on two-zone refined meshes whose cell count does not split evenly between the zones (odd n, default 1:1 zones; 1:2 zones
    with n not a multiple of 3): one wave per domain, period = the length given to the constructor"""
    out = []
    p = design_order(rname)
    for ns, (za, zb) in (((41, 81, 161), (1, 1)), ((40, 80, 160), (1, 2))):
        errs = []
        for n in ns:
            mesh = space.mesh1.refinedmesh(ncell=n, length=1.0, ratio=2.0, nratioa=za, nratiob=zb)
            model = space.convection.model(1.0)
            disc = space.modeldisc.fvm(model, mesh, space._recon(rname))
            f = space.field.fdata(model, mesh, [cellavg_sin(np.asarray(mesh.xf, float), 1, 0.7, 0.0)])
            with np.errstate(all="ignore"), core.time_limit(120.0):
                g = space.integrators()[iname](mesh, disc).solve(f, 0.2, [0.3])[-1]
            errs.append(float(np.mean(np.abs(g.data[0] - cellavg_sin(np.asarray(mesh.xf, float), 1, 0.7, 0.3)))))
        order = np.log2(errs[-2] / errs[-1]) if errs[-1] > 0 else np.inf
        lo = min(1.5, p - 0.3)
        if res is not None:
            res.evals += len(ns)
            res.worst("sine-order-shortfall/refined-mesh", p - order)
        if not (np.all(np.isfinite(errs)) and order >= lo):
            out.append(("C04/sine/%s/refined-mesh-uneven-split/order-too-low" % rname.replace(":", "-"), "%s %s on refinedmesh(n, ratio 2, zones %d:%d): L1 errors %r on n=%r, observed order %.2f < %.2f" % (
                rname, iname, za, zb, errs, list(ns), order, lo)))
    return out


def check_sine(rname, iname, k, phi, a, levels, res=None):
    ns = [32 * k * m for m in levels]
    errs = [sine_error(rname, iname, k, phi, a, n) for n in ns]
    p = design_order(rname)
    order = np.log2(errs[-2] / errs[-1])
    limited = rname.startswith("muscl")
    lo = 1.5 if limited else p - 0.2
    hi = p + 0.6
    out = []
    if res is not None:
        res.evals += len(ns)
        res.worst("sine-order-shortfall/%s" % ("muscl" if limited else "order%d" % p), (p - order))
        res.census["sine/observed-order-%.1f" % (round(order * 2) / 2)] += 1
    site = "C04/sine/%s" % rname.replace(":", "-")
    if not (np.all(np.isfinite(errs)) and errs[-1] < errs[0]):
        out.append((site + "/no-convergence", "%s %s k=%d phi=%g a=%g: L1 errors %r on n=%r do not decrease" % (rname, iname, k, phi, a, errs, ns)))
    elif not order >= lo:
        out.append((site + "/order-too-low", "%s %s k=%d phi=%g a=%g: L1 errors %r on n=%r, observed order %.2f < %.2f (design %d)" % (rname, iname, k, phi, a, errs, ns, order, lo, p)))
    elif not order <= hi and not limited:
        if res is not None:
            res.census["sine/order-above-design+0.6/%s" % rname] += 1
    return out


# ---------------------------------------------------------------------------
# E3
UPAIRS = [(0.0, 0.0), (0.5, -0.5), (-0.5, 0.5), (0.6, 0.6), (-0.6, -0.6)]


def problems():
    out = []
    for r, q in itertools.product((1.0, 8.0, 0.125), repeat=2):
        for ul, ur in UPAIRS:
            if r == 1.0 and q == 1.0 and ul == ur:
                continue
            # the statement is quantified over moderate data with |u| < c on both sides
            if not (abs(ul) < np.sqrt(1.4 * q / r) and abs(ur) < np.sqrt(1.4)):
                continue
            out.append(((r, ul, q), (1.0, ur, 1.0)))
    return out


def mirror(WL, WR):
    return (WR[0], -WR[1], WR[2]), (WL[0], -WL[1], WL[2])


def riemann_error(WL, WR, flux, rname, iname, n):
    g = 1.4
    sp = rs.wave_speeds(WL, WR, g)
    smax = max(abs(sp[0]), abs(sp[-1]), 1e-12)
    T = 0.4 / smax
    mesh = space.mesh1.unimesh(ncell=n, length=1.0, x0=-0.5)
    model, disc = space.build_1d(("euler1d", g), flux, rname, mesh, ("dirichlet", list(WL)), ("dirichlet", list(WR)))
    xc = mesh.centers()
    prim = [np.where(xc < 0, WL[k], WR[k]).astype(float) for k in range(3)]
    f = space.field.fdata(model, mesh, model.prim2cons(prim))
    with np.errstate(all="ignore"), core.time_limit(300.0):
        out = space.integrators()[iname](mesh, disc).solve(f, 0.5, [T])
    gq = out[-1]
    ex = rs.sample(WL, WR, xc / T, g)
    rho = gq.phydata("density")
    pr = gq.phydata("pressure")
    u = gq.phydata("velocity")
    if not (np.all(np.isfinite(rho)) and np.all(np.isfinite(pr))):
        return np.nan
    riemann_error.fan = fan_jump(WL, WR, xc / T, rho, g)
    return float(np.mean(np.abs(rho - ex[0])) / np.mean(ex[0]) + np.mean(np.abs(pr - ex[2])) / np.mean(ex[2]) + np.mean(np.abs(u - ex[1])) / (np.mean(np.abs(ex[1])) + 1.0))


def fan_jump(WL, WR, xi, rho, g=1.4):
    """largest density jump between neighbouring cells strictly inside each rarefaction fan of the exact solution, relative to the density
    change across the fan; (jump, number of cells in the fan) per fan.  A fan is smooth: the jump behaves like 1/cells under refinement;
    a stationary expansion shock (lost entropy fix at a sonic point) keeps it constant."""
    pm, um = rs.star(WL, WR, g)
    out = []
    for side, (r0, u0, p0) in (("L", WL), ("R", WR)):
        if pm >= p0 * (1 - 1e-9):
            continue
        a0 = np.sqrt(g * p0 / r0)
        am = a0 * (pm / p0) ** ((g - 1) / (2 * g))
        head, tail = (u0 - a0, um - am) if side == "L" else (u0 + a0, um + am)
        lo, hi = min(head, tail), max(head, tail)
        w = hi - lo
        inside = np.flatnonzero((xi > lo + 0.1 * w) & (xi < hi - 0.1 * w))
        if inside.size < 3:
            out.append((np.nan, int(inside.size)))
            continue
        seg = rho[inside[0]:inside[-1] + 1]
        drho = abs(r0 - r0 * (pm / p0) ** (1 / g))
        out.append((float(np.abs(np.diff(seg)).max() / drho), int(inside.size)))
    return out


def check_riemann(pi, flux, rname, iname, ns, res=None):
    WL, WR = problems()[pi]
    out = []
    site = "C04/riemann/%s/%s" % (flux, rname.replace(":", "-"))
    errs, fans = [], []
    for n in ns:
        errs.append(riemann_error(WL, WR, flux, rname, iname, n))
        fans.append(getattr(riemann_error, "fan", []))
    ML, MR = mirror(WL, WR)
    errm = [riemann_error(ML, MR, flux, rname, iname, n) for n in ns[:2]]
    if res is not None:
        res.evals += len(ns) + 2
    if not np.all(np.isfinite(errs)):
        return [(site + "/non-finite", "%s %s %s problem %r|%r: errors %r on n=%r" % (flux, rname, iname, WL, WR, errs, ns))]
    # an exactly resolved problem (stationary contact with hllc) has zero error on every level
    ratios = [(errs[i + 1] / errs[i]) if errs[i] > 0 else (0.0 if errs[i + 1] == 0 else np.inf) for i in range(len(errs) - 1)]
    if res is not None:
        res.worst("riemann-error-ratio/any", max(ratios))
        res.worst("riemann-error-ratio/finest-pair", ratios[-1])
    # the statement is monotone decrease (every ratio < 1); on the finest pair the waves are resolved and the ratio must be clearly below one
    if not (max(ratios) <= 0.99 and ratios[-1] <= 0.9):
        out.append((site + "/error-does-not-decrease", "%s %s %s problem %r|%r: L1 errors %r on n=%r, ratios %r (every ratio must be < 1, the last <= 0.9: a first-order scheme resolves a contact like dx^0.5, ratio 0.71)" % (flux, rname, iname, WL, WR, errs, ns, ratios)))
    # rarefactions at the right strength: inside a fan resolved by >= 6 cells on the coarsest level the largest cell-to-cell density jump
    # shrinks under refinement (like 1/cells: a factor 4 from n to 4n; required: a factor 1/0.6)
    for k in range(len(fans[0])):
        j0, c0 = fans[0][k]
        j1, c1 = fans[2][k] if len(fans) > 2 and len(fans[2]) > k else (np.nan, 0)
        if c0 >= 6 and np.isfinite(j0) and np.isfinite(j1):
            if res is not None:
                res.worst("fan-jump-ratio(n to 4n)", j1 / j0 if j0 > 0 else 0.0)
                res.census["riemann/fans-judged"] += 1
            if not j1 <= 0.6 * j0:
                out.append((site + "/rarefaction-not-smooth", "%s %s %s problem %r|%r: largest density jump inside rarefaction fan %d is %.3g of the fan on n=%d and %.3g on n=%d: it does not shrink (expansion shock?)"
                            % (flux, rname, iname, WL, WR, k, j0, ns[0], j1, ns[2])))
    for a, b in zip(errs, errm):
        if not abs(a - b) <= 1e-8 * abs(a) + 1e-300:
            out.append((site + "/mirror-problem-error-differs", "%s %s %s problem %r|%r: error %r, mirror image %r" % (flux, rname, iname, WL, WR, a, b)))
            break
    return out


def check_packaged_riemann(pi, res=None):
    import flowdyn.solution.euler_riemann as solR
    WL, WR = problems()[pi]
    out = []
    for (L, R) in ((WL, WR), mirror(WL, WR)):
        model = space.euler.euler1d()
        sp = rs.wave_speeds(L, R)
        smax = max(abs(sp[0]), abs(sp[-1]))
        xi = np.linspace(-1.3 * smax, 1.3 * smax, 41)
        keep = np.array([min(abs(x - s) for s in sp) > 2e-3 * smax for x in xi])
        mesh = space.mesh_from_faces(np.concatenate([[xi[0] - 1e-3], 0.5 * (xi[1:] + xi[:-1]), [xi[-1] + 1e-3]]))
        xc = np.asarray(mesh.centers())
        try:
            with np.errstate(all="ignore"):
                got = solR.riemann(model, list(L), list(R)).primdata(mesh, 1.0)
        except Exception as e:
            out.append(("C04/packaged/riemann/exception", "solution.euler_riemann raised %r for %r|%r" % (e, L, R)))
            continue
        ex = rs.sample(L, R, xc)
        keep = np.array([min(abs(x - s) for s in sp) > 2e-3 * smax for x in xc])
        for k, nm in enumerate(("density", "velocity", "pressure")):
            sc = np.abs(ex[k]).max() + (1.0 if k == 1 else 0.0)
            err = np.abs(np.asarray(got[k], float) - ex[k])[keep].max() / sc
            if res is not None:
                res.evals += int(keep.sum())
                res.worst("packaged-riemann", err)
            if not err <= 1e-6:
                out.append(("C04/packaged/riemann/%s" % nm, "solution.euler_riemann for %r|%r: %s differs from the independent exact solver by %.3g" % (L, R, nm, err)))
    return out


def check_packaged_nozzle(NPR, g, n, res=None):
    import flowdyn.solution.euler_nozzle as solN
    S = lambda x: 1.0 - 0.5 * np.exp(-0.5 * (x - 5.0) ** 2)
    mesh = space.mesh1.unimesh(ncell=n, length=10.0)
    model = space.euler.nozzle(S, gamma=g)
    A = S(mesh.centers())
    out = []
    try:
        with np.errstate(all="ignore"):
            noz = solN.nozzle(model, A, NPR=NPR)
            rho, u, p = [np.asarray(x, float) for x in noz.primdata()]
    except Exception as e:
        return [("C04/packaged/nozzle/exception", "solution.euler_nozzle raised %r for NPR=%g gamma=%g" % (e, NPR, g))]
    M = u / np.sqrt(g * p / rho)
    pt = p * (1 + 0.5 * (g - 1) * M * M) ** (g / (g - 1))
    rtt = p / rho * (1 + 0.5 * (g - 1) * M * M)
    mdot = rho * u * A
    site = "C04/packaged/nozzle"
    # pressures are scaled by the ambient pressure: inlet total pressure = NPR always; the exit pressure equals the ambient one unless the exit is supersonic
    checks = [("mass-flow-constant", np.abs(mdot / mdot[0] - 1).max()), ("total-temperature-constant", np.abs(rtt - 1.0).max()),
              ("inlet-total-pressure-is-NPR", abs(pt[0] / NPR - 1))]
    if M[-1] < 1:
        checks.append(("subsonic-exit-at-ambient-pressure", abs(p[-1] - 1.0)))
    drops = np.flatnonzero(np.abs(np.diff(pt)) > 1e-9 * pt[0])
    checks.append(("total-pressure-piecewise-constant-one-shock", 0.0 if drops.size <= 1 and np.all(np.diff(pt) <= 1e-9) else 1.0))
    for nm, err in checks:
        if res is not None:
            res.evals += 1
            res.worst("packaged-nozzle/" + nm, err)
        if not err <= 1e-6:
            s_ = site + "/" + nm if g == 1.4 else site + "/gamma!=1.4/gamma-1.4-relations-mixed-in"
            out.append((s_, "solution.euler_nozzle NPR=%g gamma=%g n=%d: %s violated by %.3g" % (NPR, g, n, nm, err)))
    if drops.size == 1:
        i = drops[0]
        if not (M[i] > 1 > M[i + 1]):
            out.append((site + "/shock-is-supersonic-to-subsonic", "NPR=%g: Mach %r -> %r across the total-pressure drop" % (NPR, M[i], M[i + 1])))
        if res is not None:
            res.census["nozzle/with-shock"] += 1
    return out


# ---------------------------------------------------------------------------
def shard_moments(rname):
    res = core.Res()
    for a in (1.0, -1.5):
        res.nontrivial += 1
        for s, w in check_moments(rname, a, res):
            res.violation(s, w, {"kind": "mom", "recon": rname, "a": a})
    return res


def shard_sine(arg):
    rname, iname, levels = arg
    res = core.Res()
    combos = itertools.product((1, 2), (0.0, 0.7), (1.0, -0.5, 2.0))
    if space.is_implicit(space.integrators()[iname]):
        combos = [(1, 0.7, 1.0), (1, 0.0, -0.5)]        # dense linear algebra: the first wavelength only
    for k, phi, a in combos:
        res.nontrivial += 1
        for s, w in check_sine(rname, iname, k, phi, a, levels, res):
            res.violation(s, w, {"kind": "sine", "recon": rname, "integrator": iname, "k": k, "phi": phi, "a": a, "levels": list(levels)})
    if iname == "rk3ssp":
        res.nontrivial += 1
        for s, w in check_sine_reuse(rname, iname, res):
            res.violation(s, w, {"kind": "sine-reuse", "recon": rname, "integrator": iname})
        if rname != "extrapol1" and design_order(rname) == 2:
            res.nontrivial += 1
            for s, w in check_sine_refined(rname, iname, res):
                res.violation(s, w, {"kind": "sine-refined", "recon": rname, "integrator": iname})
    res.sample({"recon": rname, "integrator": iname, "k": 2, "phi": 0.7, "a": -0.5, "n_ladder": [64 * m for m in levels]}, cap=1)
    return res


def shard_riemann(arg):
    pi, flux, rname, iname, ns = arg
    res = core.Res()
    res.nontrivial += 1
    for s, w in check_riemann(pi, flux, rname, iname, ns, res):
        res.violation(s, w, {"kind": "riem", "pi": pi, "flux": flux, "recon": rname, "integrator": iname, "ns": list(ns)})
    WL, WR = problems()[pi]
    res.sample({"W_L": list(WL), "W_R": list(WR), "flux": flux, "recon": rname, "integrator": iname, "n_ladder": list(ns)}, cap=1)
    return res


def shard_pack(arg):
    res = core.Res()
    if arg[0] == "riem":
        res.nontrivial += 1
        for s, w in check_packaged_riemann(arg[1], res):
            res.violation(s, w, {"kind": "prie", "pi": arg[1]})
    else:
        _, NPR, g, n = arg
        res.nontrivial += 1
        for s, w in check_packaged_nozzle(NPR, g, n, res):
            res.violation(s, w, {"kind": "pnoz", "NPR": NPR, "g": g, "n": n})
    return res


def run(ctx):
    th = ctx.thorough
    ctx.pmap("moments", shard_moments, ["extrapol1"] + space.X1_UNLIMITED)       # a stencil exists for the linear schemes only
    integs = ["rk3ssp", "rk4", "lsrk4"] + (["rk3_heun", "lsrk26bb"] if th else [])
    levels = (1, 2, 4, 8) if th else (1, 2, 4)
    cfg_s = [(r, i, levels) for r in space.X1_ALL for i in integs]
    # second-order implicit time integration (Crank-Nicolson, BDF2) is "high order" for the reconstructions of design order <= 2, backward Euler for order 1
    cfg_s += [(r, i, (1, 2, 4)) for r in space.X1_ALL if design_order(r) <= 2 and not r.startswith("muscl") for i in (["cranknicolson", "gear"] + (["implicit"] if design_order(r) == 1 else []))]
    ctx.pmap("sine-ladder", shard_sine, cfg_s)
    recs = ["extrapol1"] + (space.X1_MUSCL if th else ["muscl:minmod", "muscl:vanleer"])
    ns = (50, 100, 200, 400) if th else (50, 100, 200)
    cfg = [(pi, fl, r, i, ns) for pi in range(len(problems())) for fl in ("hlle", "hllc") for r in recs for i in (["rk3ssp", "rk2_heun"] if th else ["rk3ssp"])]
    ctx.pmap("riemann-ladder", shard_riemann, cfg)
    pk = [("riem", pi) for pi in range(len(problems()))]
    pk += [("noz", NPR, g, n) for NPR in (1.02, 1.05, 1.1, 1.3, 1.6, 2.0, 3.0, 8.0) for g in (1.4, 1.35) for n in (50, 200)]
    ctx.pmap("packaged-reference-solutions", shard_pack, pk)


def replay(case):
    if case.get("kind") == "sine-refined":
        return check_sine_refined(case["recon"], case["integrator"])
    if case.get("kind") == "sine-reuse":
        return check_sine_reuse(case["recon"], case["integrator"])
    k = case["kind"]
    if k == "mom":
        return check_moments(case["recon"], case["a"])
    if k == "sine":
        return check_sine(case["recon"], case["integrator"], case["k"], case["phi"], case["a"], tuple(case["levels"]))
    if k == "riem":
        return check_riemann(case["pi"], case["flux"], case["recon"], case["integrator"], tuple(case["ns"]))
    if k == "prie":
        return check_packaged_riemann(case["pi"])
    return check_packaged_nozzle(case["NPR"], case["g"], case["n"])
