"""C12 - slope limiters lie in the second-order TVD region.

Exhaustive enumeration of all ordered pairs of a lattice of floats that
contains every sign pattern, exact zeros, equal arguments, ratios 1e-300..1e300
(the stated domain asks for 1e-12..1e12) and both the overflow and underflow
regimes of the intermediate products a*b, a**2+b**2, p*(a+b).
"""
import itertools
import numpy as np

from .. import core

ID = "C12"
LEVEL = "exploration"
RULE = ("all ordered pairs (a,b) of the lattice {0} U {+-m*10^e}; m in {1,1+2^-52,1.25,1.5,2-2^-52,2,3,7}, "
        "e in -150..150 step 5 (thorough: all ordered pairs of the step-1 lattice, 4817 values), |value|<=1e150; per limiter. "
        "non-trivial = both arguments non-zero and a != b (distinct pairs by construction)")
ASSUMPTIONS = ["values between lattice points are not explored",
               "numpy elementwise +,*,/ are correctly rounded so a 1-element replay equals the vectorised run"]

EPS = np.finfo(float).eps
MANT = [1.0, 1.0 + 2.0 ** -52, 1.25, 1.5, 2.0 - 2.0 ** -52, 2.0, 3.0, 7.0]
LIMITERS = ["minmod", "vanalbada", "vanleer", "superbee"]


def lattice(step, emin=-150, emax=150):
    vals = [0.0]
    for e in range(emin, emax + 1, step):
        for m in MANT:
            v = m * 10.0 ** e
            if 1e-150 <= v <= 1e150:
                vals += [v, -v]
    return np.array(sorted(set(vals)))


class LimiterRaised(Exception):
    pass


def limiter(name):
    import flowdyn.xnum as xnum
    fn = getattr(xnum, name)

    def guarded(a, b):
        # a limiter is a total function on finite floats: an exception (e.g. from a dtype guessed from the first element) is an observation
        try:
            return fn(a, b)
        except Exception as e:
            raise LimiterRaised("%s raised %s: %s" % (name, type(e).__name__, str(e)[:200]))
    return guarded


def _reg(x):
    """relative size of the documented 1e-20 regularisation at slope magnitude x"""
    return 1e-20 / np.minimum(x * x, x)


def judge(name, a, b):
    """returns {rule: mask of violating entries} for arrays a, b (same shape)"""
    f = limiter(name)
    a = np.asarray(a, dtype=float)
    b = np.asarray(b, dtype=float)
    with np.errstate(all="ignore"):
        r = np.asarray(f(a, b), dtype=float)
        rs = np.asarray(f(b, a), dtype=float)
        rn = np.asarray(f(-a, -b), dtype=float)
    sa, sb = np.sign(a), np.sign(b)       # decided from the signs, not from a*b
    opp = (sa * sb) <= 0
    same = ~opp
    aa, ab = np.abs(a), np.abs(b)
    lo, hi = np.minimum(aa, ab), np.maximum(aa, ab)
    out = {}
    out["finite"] = ~np.isfinite(r)
    out["zero-on-opposite-or-zero"] = opp & (r != 0.0)
    out["common-sign"] = same & np.isfinite(r) & (r != 0.0) & (np.sign(r) != sa)
    # |phi| <= 2 min and <= max; 4 ulp for the few roundings of the closed forms
    out["le-twice-min"] = same & np.isfinite(r) & (np.abs(r) > 2.0 * lo * (1 + 4 * EPS))
    out["le-max"] = same & np.isfinite(r) & (np.abs(r) > hi * (1 + 4 * EPS))
    out["symmetric"] = ~((r == rs) | (np.isnan(r) & np.isnan(rs)))
    out["odd"] = ~((rn == -r) | (np.isnan(r) & np.isnan(rn)))
    # homogeneity and phi(a,a)=a above the regularisation scale
    big = same & (lo >= 1e-8)
    for lam in (2.0 ** 10, 2.0 ** -10):
        ok = big & (lo * lam >= 1e-8) & (hi * lam <= 1e150)
        with np.errstate(all="ignore"):
            rl = np.asarray(f(a * lam, b * lam), dtype=float)
        tol = (16 * EPS + _reg(np.where(ok, lo, 1.0)) + _reg(np.where(ok, lo * lam, 1.0))) * np.abs(r) * lam
        out["homogeneous/lam=2^%d" % int(np.log2(lam))] = ok & ~(np.abs(rl - lam * r) <= tol)
    diag = big & (a == b)
    out["phi(a,a)=a"] = diag & ~(np.abs(r - a) <= (4 * EPS + _reg(np.where(diag, aa, 1.0))) * aa)
    return out, r


def regime(a, b):
    m = max(abs(a), abs(b))
    n = min(abs(a), abs(b))
    if m > 1e100:
        return "huge"
    if 0 < n < 1e-100:
        return "tiny"
    return "mid"


def site_of(name, rule, a, b):
    return "C12/%s/%s/%s" % (name, rule, regime(a, b))


def _pairs_full(step):
    v = lattice(step)
    A, B = np.meshgrid(v, v, indexing="ij")
    return A.ravel(), B.ravel()


def _pairs_band():
    v = lattice(1)
    e = np.where(v == 0, 0, np.floor(np.log10(np.abs(np.where(v == 0, 1, v))) + 1e-9))
    A, B = [], []
    for i, x in enumerate(v):
        sel = (np.abs(e - e[i]) <= 12) | (v == 0)
        A.append(np.full(sel.sum(), x))
        B.append(v[sel])
    return np.concatenate(A), np.concatenate(B)


def _pairs_block(k, nblk):
    """block k of the full step-1 lattice (all ordered pairs, 4817^2 = 23.2 M), split by rows"""
    v = lattice(1)
    rows = np.array_split(np.arange(v.size), nblk)[k]
    A, B = np.meshgrid(v[rows], v, indexing="ij")
    return A.ravel(), B.ravel()


def shard(arg):
    res = core.Res()
    try:
        return _shard(arg, res)
    except LimiterRaised as e:
        res.violation("C12/%s/raises" % arg[0], str(e), {"kind": "scalar", "limiter": arg[0]})
        return res


def _shard(arg, res):
    name, mode = arg[0], arg[1]
    if mode == "full":
        a, b = _pairs_full(5)
    elif mode == "band":
        a, b = _pairs_band()
    else:
        a, b = _pairs_block(arg[2], arg[3])
    out, r = judge(name, a, b)
    res.evals += a.size
    res.nontrivial += int(np.sum((a != 0) & (b != 0) & (a != b)))
    sa, sb = np.sign(a), np.sign(b)
    res.census["pairs/opposite-or-zero"] += int(np.sum(sa * sb <= 0))
    res.census["pairs/same-sign"] += int(np.sum(sa * sb > 0))
    res.census["pairs/equal-nonzero"] += int(np.sum((a == b) & (a != 0)))
    res.census["result/zero-on-same-sign"] += int(np.sum((sa * sb > 0) & (r == 0)))
    res.census["result/equals-2min"] += int(np.sum((sa * sb > 0) & (np.abs(r) == 2 * np.minimum(abs(a), abs(b)))))
    res.census["result/equals-max"] += int(np.sum((sa * sb > 0) & (np.abs(r) == np.maximum(abs(a), abs(b)))))
    for rule, mask in out.items():
        idx = np.flatnonzero(mask)
        for i in idx[:200]:
            res.violation(site_of(name, rule, a[i], b[i]), "%s(%r,%r) = %r breaks rule '%s'" % (name, a[i], b[i], r[i], rule),
                          {"kind": "pair", "limiter": name, "a": float(a[i]), "b": float(b[i])})
        if idx.size > 200:
            res.nviol[site_of(name, rule, a[idx[0]], b[idx[0]])] += idx.size - 200
    k = (7 * a.size) // 13
    res.sample({"limiter": name, "a": float(a[k]), "b": float(b[k]), "phi": float(r[k])}, cap=1)
    return res


def shard_scalar(name):
    res = core.Res()
    try:
        return _shard_scalar(name, res)
    except LimiterRaised as e:
        res.violation("C12/%s/raises" % name, str(e), {"kind": "scalar", "limiter": name})
        return res


def _shard_scalar(name, res):
    """scalars behave like arrays (elementwise claim): python floats, numpy scalars, 2-D arrays"""
    f = limiter(name)
    v = lattice(30)
    A, B = np.meshgrid(v, v, indexing="ij")
    with np.errstate(all="ignore"):
        ref = np.asarray(f(A.ravel(), B.ravel()), dtype=float).reshape(A.shape)
        r2d = np.asarray(f(A, B), dtype=float)
    if r2d.shape != A.shape or not np.array_equal(r2d, ref, equal_nan=True):
        res.violation("C12/%s/elementwise-2d" % name, "2-D array call differs from flattened call",
                      {"kind": "scalar", "limiter": name})
    # memory layout must not matter: strided and reversed views, Fortran order, a scalar against an array (broadcasting)
    a1, b1 = A.ravel(), B.ravel()
    with np.errstate(all="ignore"):
        big = np.zeros((2, a1.size * 2))
        big[0, ::2], big[1, ::2] = a1, b1
        r_str = np.asarray(f(big[0, ::2], big[1, ::2]), dtype=float)
        r_rev = np.asarray(f(a1[::-1], b1[::-1]), dtype=float)[::-1]
        r_for = np.asarray(f(np.asfortranarray(A), np.asfortranarray(B)), dtype=float)
        r_bc = np.asarray(f(v[3], v), dtype=float)
    flat = ref.ravel()
    # the value for a pair must not depend on which pair comes first in the array: rotations that bring every sign class
    # ((-,-),(+,+),(+,-),(-,+),(0,x),(x,0),(0,0)) and non-integer values to the front
    n1 = a1.size
    firsts = {}
    for k in range(n1):
        cls_ = (int(np.sign(a1[k])), int(np.sign(b1[k])), bool(a1[k] == b1[k]))
        firsts.setdefault(cls_, k)
    for cls_, k in sorted(firsts.items()):
        with np.errstate(all="ignore"):
            rr = np.asarray(f(np.roll(a1, -k), np.roll(b1, -k)))
        back = np.roll(np.asarray(rr, dtype=float), k)
        if rr.shape != a1.shape or not np.array_equal(back, flat, equal_nan=True):
            bad = np.flatnonzero(~((back == flat) | (np.isnan(back) & np.isnan(flat)))) if rr.shape == a1.shape else [0]
            j = int(bad[0])
            res.violation("C12/%s/elementwise-order-dependent" % name, "%s: with the pair (%r,%r) (sign class %r) first in the array, the value for (%r,%r) is %r (dtype %s) instead of %r"
                          % (name, a1[k], b1[k], cls_, a1[j], b1[j], back[j] if rr.shape == a1.shape else None, rr.dtype, flat[j]), {"kind": "scalar", "limiter": name})
            break
    for nm, got, want in (("strided-view", r_str, flat), ("reversed-view", r_rev, flat), ("fortran-order", r_for, ref), ("scalar-with-array", r_bc, ref[3, :])):
        if np.shape(got) != np.shape(want) or not np.array_equal(got, want, equal_nan=True):
            res.violation("C12/%s/elementwise-%s" % (name, nm), "%s: the call on a %s differs from the call on contiguous arrays" % (name, nm), {"kind": "scalar", "limiter": name})
    for i, j in itertools.product(range(v.size), repeat=2):
        res.evals += 1
        with np.errstate(all="ignore"):
            s = float(f(float(v[i]), float(v[j])))
            s2 = float(f(np.float64(v[i]), np.float64(v[j])))
        for val in (s, s2):
            if not (val == ref[i, j] or (val != val and ref[i, j] != ref[i, j])):
                res.violation("C12/%s/scalar-vs-array" % name,
                              "%s(%r,%r): scalar call %r, array call %r" % (name, v[i], v[j], val, ref[i, j]),
                              {"kind": "scalar", "limiter": name, "a": float(v[i]), "b": float(v[j])})
        if v[i] != 0 and v[j] != 0 and v[i] != v[j]:
            res.nontrivial += 1
    return res


def run(ctx):
    ctx.pmap("pairs-full-lattice", shard, [(n, "full") for n in LIMITERS])
    if ctx.thorough:
        ctx.pmap("pairs-band-step1", shard, [(n, "band") for n in LIMITERS])
        # every ordered pair of the step-1 lattice (4817 values: all exponents -150..150), 23.2 M pairs per limiter
        nblk = 24
        ctx.pmap("pairs-full-step1-lattice", shard, [(n, "block", k, nblk) for n in LIMITERS for k in range(nblk)])
    ctx.pmap("scalar-vs-array", shard_scalar, LIMITERS)


def replay(case):
    name = case["limiter"]
    out = []
    if case["kind"] == "scalar":
        r = shard_scalar(name)
        return [(v["site"], v["what"]) for v in r.viols]
    a, b = float(case["a"]), float(case["b"])
    masks, r = judge(name, np.array([a]), np.array([b]))
    for rule, m in masks.items():
        if m[0]:
            out.append((site_of(name, rule, a, b), "%s(%r,%r) = %r breaks rule '%s'" % (name, a, b, r[0], rule)))
    return out
