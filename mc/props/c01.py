"""C01 - discrete conservation of every conserved variable (1D and 2D).

Shape B (operator): every assignment of a cell-state alphabet to every mesh with
n <= 4 cells (all width vectors over {1/2,1,2}) x model x registered flux x
reconstruction x boundary set; 2D: all assignments on grids (nx,ny) in {1,2,3}^2.
Shape A (solve): BFS over real step() transitions (integrator x CFL), depth 3, from
every data assignment; the invariant is checked after every transition.
"""
import itertools

import numpy as np

from .. import core, space

ID = "C01"
LEVEL = "exploration"
RULE = ("operator: all assignments of a 3-5 letter cell-state alphabet to all meshes with n<=4 cells (width vectors over {1/2,1,2}, uniform, refined) "
        "x {convection+-,burgers,shallowwater,euler1d,nozzle(const section)} x every registered flux x 9 (thorough 16) reconstructions x boundary sets "
        "(periodic, sym, dirichlet, every Euler inlet/outlet on either side); 2D: all assignments on grids {1,2,3}^2 x {centered,hlle} x 6 reconstructions "
        "x 5 boundary sets; solve: BFS depth 3 over (integrator, CFL) transitions from every assignment on n=3 periodic/sym meshes. "
        "non-trivial = non-uniform data")
ASSUMPTIONS = ["cell states between alphabet letters are not explored",
               "open boundaries: the boundary fluxes are read from the face-flux array of the discretisation (attribute 'flux'); periodic and sym statements are pure API",
               "faces whose reconstructed density/pressure/depth is not positive make the case inadmissible (counted, not judged)",
               "implicit classes: conservation to 1e-6 x (1+CFL) relative (finite-difference Jacobian + LAPACK); branches stop at the first inadmissible state"]
EPS = np.finfo(float).eps
K = 64.0

MODELS = {
    "convection+": (("convection", 1.0), "convection"), "convection-": (("convection", -1.5), "convection"),
    "burgers": (("burgers",), "burgers"), "shallowwater": (("shallowwater", 9.81), "shallowwater"),
    "euler1d": (("euler1d", 1.4), "euler1d"), "nozzle-const": (("nozzle", "const", 1.4), "euler1d"),
}
# secondary parameters (other gamma, g, convection speed): enumerated in the thorough tier
EXTRA = {"euler1d-g5/3": (("euler1d", 5.0 / 3.0), "euler1d"), "shallowwater-g1": (("shallowwater", 1.0), "shallowwater"),
         "convection-slow": (("convection", -1e-3), "convection")}
MODELS.update(EXTRA)
PAR = {"ptot": 3.0, "rttot": 1.5, "p": 0.9}


def bc_sets(kind):
    if kind in ("convection", "burgers"):
        return [("per", "per"), (("dirichlet", [1.5]), ("dirichlet", [-0.5]))]
    if kind == "shallowwater":
        return [("per", "per"), ("sym", "sym"), (("dirichlet", [1.2, 0.3]), "sym"), ("inf", ("dirichlet", [0.8, -0.4])), ("sym", "inf")]
    e = lambda n: (n, PAR)
    return [("per", "per"), ("sym", "sym"), (("dirichlet", [1.1, 0.2, 0.9]), ("dirichlet", [0.9, -0.3, 1.2])),
            (e("insub"), e("outsub")), (e("outsub"), e("insub")), (e("insub_cbc"), e("outsub_nrcbc")), (e("outsub_nrcbc"), e("insub_cbc")),
            (e("insup"), e("outsup")), (e("outsup"), e("insup")), (e("outsub_qtot"), e("outsub_rh")), (e("outsub_rh"), e("outsub_qtot")),
            ("sym", e("outsub_prim")), (("dirichlet", [1.0, 0.4, 1.0]), "sym")]


def meshes(tier):
    out = [("uni", 1, 1.0, 0.0), ("uni", 2, 3.0, -4.0), ("uni", 3, 1.0, 0.0), ("uni", 4, 0.5, 2.0),
           ("ref", 4, 1.0, 2.0, 1, 1), ("ref", 3, 2.0, 0.5, 1, 2), ("ref", 4, 1.0, 3.0, 1, 1)]
    out += [("w", w) for w in [(1.0, 1.0), (0.5, 2.0), (2.0, 0.5), (1.0, 2.0)]]
    out += [("w", w) for w in space.width_vectors(3)]
    out += [("w", w) for w in space.ODD_SCALE_WIDTHS] + [("ref", 4, 1e-6, 2.0, 1, 1)]
    w4 = space.width_vectors(4)
    out += [("w", w) for w in (w4 if tier == "thorough" else w4[::8])]
    if tier == "thorough":
        out += [("w", w) for w in space.width_vectors(5)[::7]]
    return out


def nletters(n, tier):
    return {1: 5, 2: 5, 3: 4 if tier == "thorough" else 3, 4: 3, 5: 2}.get(n, 2)


def bc_tag(b):
    return b if isinstance(b, str) else b[0]


def check_op_1d(mname, flux, rname, mspec, bcs, idx, strength, res=None):
    """one rhs evaluation; returns list of (site, what)"""
    spec, kind = MODELS[mname]
    mesh = space.mesh_spec(mspec)
    model, disc = space.build_1d(spec, flux, rname, mesh, bcs[0], bcs[1])
    al = space.cons_alphabet(kind, strength)
    f = space.field_from_letters(model, mesh, al, idx)
    with np.errstate(all="ignore"):
        R = disc.rhs(f)
    vol = np.asarray(mesh.vol(), float)
    n = mesh.ncell
    out = []
    # admissibility from the face states actually reconstructed
    pos = [0, 2] if kind == "euler1d" else ([0] if kind == "shallowwater" else [])
    for k in pos:
        if not (np.all(np.asarray(disc.pL[k]) > 0) and np.all(np.asarray(disc.pR[k]) > 0)):
            if res is not None:
                res.skipped += 1
            return out
    F = [np.asarray(x, float) for x in disc.flux]
    site = "C01/op1d/%s/%s/%s/%s-%s" % (mname, flux or "builtin", "unlimited" if space.recon_kappa(rname) is not None else rname.replace(":", "-"),
                                        bc_tag(bcs[0]), bc_tag(bcs[1]))
    if not all(np.all(np.isfinite(r)) for r in R):
        if all(np.all(np.isfinite(x)) for x in F):
            out.append((site + "/finite", "non-finite residual although all face fluxes are finite"))
        elif res is not None:
            res.skipped += 1
        return out
    for q in range(model.neq):
        if np.asarray(R[q]).shape != (n,):
            out.append((site + "/shape", "residual %d has shape %r" % (q, np.asarray(R[q]).shape)))
            return out
        tot = float(np.sum(vol * R[q]))
        scale = float(np.sum(np.abs(F[q]))) + 1e-300
        if bcs[0] == "per":
            want, label = 0.0, "periodic"
        elif bcs == ("sym", "sym") and ((kind == "euler1d" and q in (0, 2)) or (kind == "shallowwater" and q == 0)):
            want, label = 0.0, "walls"
            scale += float(np.sum(vol * np.abs(R[q])))
        else:
            want, label = float(F[q][0] - F[q][n]), "boundary-fluxes"
        err = abs(tot - want) / scale / EPS
        if res is not None:
            res.worst("op1d/%s" % label, err)
        if not err <= K * (1 + n / 8.0):
            out.append((site + "/eq%d" % q, "%s %s %s mesh %r bc %s-%s data %r: sum(vol*R[%d]) = %r, expected %r (%s); defect %.3g eps of sum|F|"
                        % (mname, flux, rname, mspec, bc_tag(bcs[0]), bc_tag(bcs[1]), idx, q, tot, want, label, err)))
    return out


def shard_op1d(arg):
    mname, flux, rname, tier = arg
    res = core.Res()
    spec, kind = MODELS[mname]
    strength = "mild" if space.recon_kappa(rname) is not None else "strong"
    for mspec in meshes(tier):
        n = mspec[1] if mspec[0] in ("uni", "ref") else len(mspec[1])
        L = nletters(n, tier)
        for bcs in bc_sets(kind):
            for idx in itertools.product(range(L), repeat=n):
                res.evals += 1
                if len(set(idx)) > 1:
                    res.nontrivial += 1
                for s, w in check_op_1d(mname, flux, rname, mspec, bcs, idx, strength, res):
                    res.violation(s, w, {"kind": "op1d", "model": mname, "flux": flux, "recon": rname, "mesh": mspec, "bcs": bcs,
                                         "idx": list(idx), "strength": strength})
    res.sample({"model": mname, "flux": flux, "recon": rname, "mesh": ["w", [0.5, 2.0, 1.0]], "bc": ["sym", "sym"], "data_letters": [0, 2, 1]}, cap=1)
    return res


def shard_sizes(arg):
    """size ladder: n in {6,7,8,13,16,33} x {uniform, refined, periodic width pattern} x boundary sets x all translates of the base patterns"""
    mname, flux, rname, tier = arg
    res = core.Res()
    spec, kind = MODELS[mname]
    strength = "mild" if space.recon_kappa(rname) is not None else "strong"
    for n in space.SIZES:
        ms = [("uni", n, 1.0, -0.3), ("ref", n, 2.0, 3.0, 1, 2), ("w", tuple((0.5, 1.0, 2.0, 1.0)[i % 4] for i in range(n)))]
        for mspec in ms:
            for bcs in bc_sets(kind)[:6]:
                for idx in space.pattern_assignments(n, 3):
                    res.evals += 1
                    res.nontrivial += 1
                    for s, w in check_op_1d(mname, flux, rname, mspec, bcs, idx, strength, res):
                        res.violation(s.replace("C01/op1d/", "C01/op1d/larger-mesh/"), w, {"kind": "op1d", "model": mname, "flux": flux, "recon": rname, "mesh": mspec, "bcs": bcs,
                                                                                         "idx": list(idx), "strength": strength, "larger": True})
    return res


# ---------------------------------------------------------------------------
# 2D operator
ALPHA2D = [(1.0, 0.0, 0.0, 1.0), (2.0, 0.5, -0.3, 1.0), (1.0, -0.4, 0.6, 2.0), (1.5, 1.4, 0.9, 1.5)]
PAR2 = {"ptot": 3.0, "rttot": 1.5, "p": 0.9}
BC2D = {
    "per": {t: {"type": "per"} for t in ("left", "right", "top", "bottom")},
    "xper-ysym": {"left": {"type": "per"}, "right": {"type": "per"}, "top": {"type": "sym"}, "bottom": {"type": "sym"}},
    "sym": {t: {"type": "sym"} for t in ("left", "right", "top", "bottom")},
    "insub-outsub-xsym": {"left": dict(PAR2, type="insub"), "right": dict(PAR2, type="outsub"), "top": {"type": "sym"}, "bottom": {"type": "sym"}},
    "yper-insup-outsup": {"left": dict(PAR2, type="insup"), "right": dict(PAR2, type="outsup"), "top": {"type": "per"}, "bottom": {"type": "per"}},
    "ysym-xper-T": {"left": {"type": "sym"}, "right": {"type": "sym"}, "top": {"type": "per"}, "bottom": {"type": "per"}},
    "bottom-in-top-out": {"left": {"type": "sym"}, "right": {"type": "sym"}, "bottom": dict(PAR2, type="insub"), "top": dict(PAR2, type="outsub")},
}


def field2d(model, msh, idx, g=1.4):
    P = np.array([ALPHA2D[i] for i in idx]).T
    q = [P[0].copy(), np.array([P[0] * P[1], P[0] * P[2]]), P[3] / (g - 1) + 0.5 * P[0] * (P[1] ** 2 + P[2] ** 2)]
    return space.field.fdata(model, msh, q)


def check_op_2d(flux, rname, grid, bcname, idx, res=None):
    nx, ny, lx, ly = grid
    model = space.euler.euler2d()
    msh = space.mesh2.mesh2d(nx, ny, lx, ly)
    disc = space.modeldisc.fvm2d(model, msh, space.recon(rname), BC2D[bcname], numflux=flux)
    f = field2d(model, msh, idx)
    with np.errstate(all="ignore"):
        R = disc.rhs(f)
    out = []
    for k in (0, 2):
        if not (np.all(np.asarray(disc.pL[k]) > 0) and np.all(np.asarray(disc.pR[k]) > 0)):
            if res is not None:
                res.skipped += 1
            return out
    vol = np.asarray(msh.vol(), float)
    dx, dy = lx / nx, ly / ny
    F = disc.flux
    nxf = ny * (nx + 1)
    site = "C01/op2d/%s/%s/%s" % (flux, "first-order" if rname == "extrapol2d1" else "k-scheme", bcname)
    # boundary faces recomputed from the row-wise numbering
    left = [j * (nx + 1) for j in range(ny)]
    right = [j * (nx + 1) + nx for j in range(ny)]
    bottom = [nxf + i for i in range(nx)]
    top = [nxf + ny * nx + i for i in range(nx)]
    comps = [("mass", np.asarray(R[0]), np.asarray(F[0])), ("momx", np.asarray(R[1])[0], np.asarray(F[1])[0]),
             ("momy", np.asarray(R[1])[1], np.asarray(F[1])[1]), ("energy", np.asarray(R[2]), np.asarray(F[2]))]
    bl = BC2D[bcname]
    for name, r, fl in comps:
        if r.shape != (nx * ny,) or not np.all(np.isfinite(r)):
            out.append((site + "/finite-or-shape", "%s residual shape %r finite %r" % (name, r.shape, bool(np.all(np.isfinite(r))))))
            continue
        tot = float(np.sum(vol * r))
        net = (fl[left].sum() - fl[right].sum()) * dy + (fl[bottom].sum() - fl[top].sum()) * dx
        scale = (np.abs(fl[:nxf]).sum() * dy + np.abs(fl[nxf:]).sum() * dx) + 1e-300
        err = abs(tot - net) / scale / EPS
        if res is not None:
            res.worst("op2d/net-boundary-flux", err)
        if not err <= K * (1 + nx * ny / 8.0):
            out.append((site + "/" + name, "%s %s grid %r bc %s data %r: sum(vol*R)=%r, net boundary flux %r (defect %.3g eps)" % (flux, rname, grid, bcname, idx, tot, net, err)))
        # API-level statements: periodic everywhere -> 0; walls -> no mass/energy
        allper = all(b["type"] == "per" for b in bl.values())
        closed = all(b["type"] in ("per", "sym") for b in bl.values())
        if allper or (closed and name in ("mass", "energy")):
            e0 = abs(tot) / (scale + float(np.sum(vol * np.abs(r)))) / EPS
            if res is not None:
                res.worst("op2d/closed-domain", e0)
            if not e0 <= K * (1 + nx * ny / 8.0):
                out.append((site + "/closed/" + name, "%s %s grid %r bc %s data %r: sum(vol*R)=%r should vanish (%.3g eps)" % (flux, rname, grid, bcname, idx, tot, e0)))
    return out


def shard_op2d(arg):
    flux, rname, grid, bcname, letters = arg
    res = core.Res()
    nx, ny = grid[0], grid[1]
    for idx in itertools.product(range(letters), repeat=nx * ny):
        res.evals += 1
        if len(set(idx)) > 1:
            res.nontrivial += 1
        for s, w in check_op_2d(flux, rname, grid, bcname, idx, res):
            res.violation(s, w, {"kind": "op2d", "flux": flux, "recon": rname, "grid": list(grid), "bc": bcname, "idx": list(idx)})
    res.sample({"flux": flux, "recon": rname, "grid": list(grid), "bc": bcname, "data_letters": [1] + [0] * (nx * ny - 1)}, cap=1)
    return res


def shard_op2d_big(arg):
    """larger grids (odd/even, elongated): all translates of an impulse, a half-plane step and a repeating pattern"""
    flux, rname, grid, bcname = arg
    res = core.Res()
    nx, ny = grid[0], grid[1]
    for idx in space.pattern_assignments(nx * ny, 3):
        res.evals += 1
        res.nontrivial += 1
        for s, w in check_op_2d(flux, rname, grid, bcname, idx, res):
            res.violation(s.replace("C01/op2d/", "C01/op2d/larger-grid/"), w, {"kind": "op2d", "flux": flux, "recon": rname, "grid": list(grid), "bc": bcname, "idx": list(idx)})
    return res


def check_sources_1d(mkind, flux, rname, mspec, kinds, idx, res=None):
    """with declared source terms the volume integral of equation i changes by the boundary fluxes (none: periodic) and by the integral of ITS
    declared source: sum(vol R_i) = sum(vol s_i(x, Q))"""
    mesh = space.mesh_spec(mspec)
    srcs = [None if k is None else (lambda x, q, k=k, i=i: (0.3 + 0.1 * i) + 0.0 * np.asarray(x) if k == "c" else 0.2 * (i + 1) * np.asarray(x) ** 2 if k == "x" else 0.1 * q[0] + 0.02 * (i + 1) * q[-1])
            for i, k in enumerate(kinds)]
    if mkind == "euler1d":
        model, kind = space.euler.euler1d(source=list(srcs)), "euler1d"
    elif mkind == "nozzle-const":
        model, kind = space.euler.nozzle(space.SECTION_LAWS["const"], source=list(srcs)), "euler1d"
    else:
        model, kind = space.shallow.shallowwater1d(source=list(srcs)), "shallowwater"
    disc = space.modeldisc.fvm(model, mesh, space.recon(rname), numflux=flux)
    f = space.field_from_letters(model, mesh, space.cons_alphabet(kind, "mild"), idx)
    with np.errstate(all="ignore"):
        R = [np.asarray(r, float).copy() for r in disc.rhs(f)]
    vol = np.asarray(mesh.vol(), float)
    x = np.asarray(mesh.centers(), float)
    q = [np.asarray(d, float) for d in f.data]
    out = []
    for i in range(model.neq):
        want = float(np.sum(vol * (srcs[i](x, q) + np.zeros(mesh.ncell)))) if srcs[i] else 0.0
        got = float(np.sum(vol * R[i]))
        sc = float(np.sum(vol * np.abs(R[i]))) + abs(want) + 1e-300
        if res is not None:
            res.evals += 1
            res.worst("op1d/declared-sources", abs(got - want) / sc / EPS)
        if not abs(got - want) <= 64 * EPS * sc:
            out.append(("C01/op1d-sources/%s/eq%d" % (mkind, i), "%s %s %s mesh %r sources %r data %r: sum(vol*R[%d]) = %r, integral of the source declared for that equation = %r (periodic)" % (
                mkind, flux, rname, mspec, kinds, idx, i, got, want)))
    return out


def shard_sources(arg):
    mkind, flux, rname = arg
    res = core.Res()
    neq = 2 if mkind == "shallowwater" else 3
    for kinds in itertools.product((None, "c", "x", "q"), repeat=neq):
        if sum(k is not None for k in kinds) < 1:
            continue
        for mspec in (("uni", 3, 2.0, -1.0), ("w", (2.0, 0.5, 1.0))):
            for idx in ((0, 1, 2), (2, 0, 0), (1, 2, 1)):
                res.nontrivial += 1
                for s_, w in check_sources_1d(mkind, flux, rname, mspec, kinds, idx, res):
                    res.violation(s_, w, {"kind": "src1d", "model": mkind, "flux": flux, "recon": rname, "mesh": mspec, "kinds": list(kinds), "idx": list(idx)})
    return res


def shard_huge(arg):
    """meshes whose cell/face counts straddle the 2^15 and 2^16 limits of narrow index types: three fixed patterns each (the operator is evaluated
    once per pattern; conservation is judged as on the small meshes)"""
    res = core.Res()
    if arg[0] == "1d":
        _, mname, flux, rname, n, bcs = arg
        spec, kind = MODELS[mname]
        for k in range(3):
            idx = space.huge_idx(n, k, 3)
            res.evals += 1
            res.nontrivial += 1
            for s, w in check_op_1d(mname, flux, rname, ("uni", n, 10.0, -0.3), bcs, idx, "mild", res):
                res.violation(s.replace("C01/op1d/", "C01/op1d/very-large-mesh/"), w[:600], {"kind": "huge", "arg": list(arg), "pattern": k})
    else:
        _, flux, rname, grid, bcname = arg
        for k in range(3):
            idx = space.huge_idx(grid[0] * grid[1], k, 3)
            res.evals += 1
            res.nontrivial += 1
            for s, w in check_op_2d(flux, rname, grid, bcname, idx, res):
                res.violation(s.replace("C01/op2d/", "C01/op2d/very-large-grid/"), w[:600], {"kind": "huge", "arg": list(arg), "pattern": k})
    return res


# ---------------------------------------------------------------------------
# solve level: BFS over step transitions
def integrals(f, vol):
    out = []
    for d in f.data:
        d = np.asarray(d)
        out += [float(np.sum(vol * d))] if d.ndim == 1 else [float(np.sum(vol * d[0])), float(np.sum(vol * d[1]))]
    return np.array(out)


def admissible(kind, f):
    if not all(np.all(np.isfinite(d)) for d in f.data):
        return False
    if kind == "euler1d":
        rho, m, E = f.data
        return bool(np.all(rho > 0) and np.all(E - 0.5 * m * m / rho > 0))
    if kind == "shallowwater":
        return bool(np.all(f.data[0] > 0))
    return True


def bfs_solve(iname, mname, flux, rname, mspec, bc, idx, depth, cfls, res=None):
    spec, kind = MODELS[mname]
    cls = space.integrators()[iname]
    impl = space.is_implicit(cls)
    mesh = space.mesh_spec(mspec)
    model, disc = space.build_1d(spec, flux, rname, mesh, bc, bc)
    al = space.cons_alphabet(kind, "mild")
    f0 = space.field_from_letters(model, mesh, al, idx)
    vol = np.asarray(mesh.vol(), float)
    watch = list(range(model.neq)) if bc == "per" else ([0, 2] if kind == "euler1d" else [0])
    out = []
    site = "C01/solve/%s/%s/%s" % (iname, mname, bc)
    # a state = (field, solver object that produced it); solver objects are rebuilt by replaying the cfl prefix (gear has memory)
    frontier = [((), f0)]
    I0 = integrals(f0, vol)
    scale0 = np.array([float(np.sum(vol * np.abs(d))) for d in f0.data]) + 1e-300
    for d in range(depth):
        nxt = []
        for prefix, _ in frontier:
            for cfl in cfls:
                solver = cls(mesh, disc)
                f = f0.copy()
                ok = True
                scale = scale0.copy()      # the largest magnitude the field has had along the path: a linearised implicit step at CFL 5 can
                for c in prefix + (cfl,):  # multiply a Burgers field by 1e4 (no admissibility constraint); round-off is relative to that
                    with np.errstate(all="ignore"):
                        dt = float(np.min(disc.calc_timestep(f, c)))
                        if not np.isfinite(dt):
                            ok = False
                            break
                        solver.step(f, dt)
                    if res is not None:
                        res.transitions += 1
                    if not admissible(kind, f):
                        ok = False
                        break
                    scale = np.maximum(scale, np.array([float(np.sum(vol * np.abs(d))) for d in f.data]))
                if res is not None:
                    res.states.add(hash(tuple(x.tobytes() for x in f.data)))
                if not ok:
                    # linearised implicit steps have no positivity guarantee at any CFL; explicit ones none above their stability limit:
                    # the branch stops here and is counted
                    if res is not None:
                        res.skipped += 1
                    continue
                I = integrals(f, vol)
                steps = len(prefix) + 1
                tol = (1e-6 * (1 + max(prefix + (cfl,))) if impl else 256 * steps * EPS)
                err = np.abs(I - I0)[watch] / scale[watch]
                if res is not None:
                    res.evals += 1
                    res.worst("solve/%s" % ("implicit" if impl else "explicit"), err.max() / tol)
                if not np.all(err <= tol):
                    q = int(np.argmax(err))
                    out.append((site, "%s %s %s %s mesh %r bc %s data %r cfl path %r: integral of variable %d drifts by %.3g relative (tolerance %.3g)"
                                % (iname, mname, flux, rname, mspec, bc, idx, prefix + (cfl,), watch[q], err[q], tol)))
                    return out
                nxt.append((prefix + (cfl,), f))
        frontier = nxt
    return out


def check_after_dtlocal(iname, mname, flux, rname, mspec, bc, idx, res=None):
    """one global time step means the global step also on a solver object that has just been used with the local-time-step directive"""
    spec, kind = MODELS[mname]
    cls = space.integrators()[iname]
    mesh = space.mesh_spec(mspec)
    model, disc = space.build_1d(spec, flux, rname, mesh, bc, bc)
    al = space.cons_alphabet(kind, "mild")
    f0 = space.field_from_letters(model, mesh, al, idx)
    vol = np.asarray(mesh.vol(), float)
    solver = cls(mesh, disc)
    out = []
    try:
        with np.errstate(all="ignore"), core.time_limit(10.0):
            solver.solve(f0, 0.3, stop={"maxit": 2}, directives={"dtlocal": True})
            g = solver.solve(f0, 0.3, stop={"maxit": 3})[-1]
    except Exception as e:
        return [("C01/solve-after-dtlocal/%s/exception" % iname, "raised %r" % (e,))]
    if res is not None:
        res.transitions += 5
        res.evals += 1
    if not admissible(kind, g):
        if res is not None:
            res.skipped += 1
        return out
    I0, I = integrals(f0, vol), integrals(g, vol)
    sc = np.array([float(np.sum(vol * np.abs(d))) for d in f0.data]) + 1e-300
    watch = list(range(model.neq)) if bc == "per" else ([0, 2] if kind == "euler1d" else [0])
    err = (np.abs(I - I0) / sc)[watch].max()
    tol = 4e-6 if space.is_implicit(cls) else 1024 * EPS
    if not err <= tol:
        out.append(("C01/solve-after-dtlocal/%s/%s" % (iname, mname), "%s %s %s %s mesh %r data %r: a plain solve (global step) on a solver object that was first used with the "
                    "dtlocal directive changes the integrals by %.3g" % (iname, mname, flux, rname, mspec, idx, err)))
    return out


def check_drivers(iname, mname, flux, rname, mspec, bc, idx, res=None):
    """the library's drivers instead of hand-made steps: every field returned by solve (with a snapshot, without) and by the older driver
    solve_legacy (two save times off the step grid) has the integrals of the initial field"""
    spec, kind = MODELS[mname]
    cls = space.integrators()[iname]
    mesh = space.mesh_spec(mspec)
    model, disc = space.build_1d(spec, flux, rname, mesh, bc, bc)
    al = space.cons_alphabet(kind, "mild")
    f0 = space.field_from_letters(model, mesh, al, idx)
    vol = np.asarray(mesh.vol(), float)
    out = []
    try:
        with np.errstate(all="ignore"), core.time_limit(10.0):
            dt0 = float(np.min(disc.calc_timestep(f0, 0.3)))
            if not np.isfinite(dt0):
                return out
            got = [("solve+snapshot", g) for g in cls(mesh, disc).solve(f0, 0.3, [1.4 * dt0], stop={"maxit": 3, "tottime": 1e30}).solutions]
            got += [("solve", g) for g in cls(mesh, disc).solve(f0, 0.3, stop={"maxit": 3}).solutions]
            # the legacy driver has no iteration limit (it never returns once the time step is NaN): only where the three iterations above stay admissible
            if all(admissible(kind, g) for _, g in got):
                got += [("solve_legacy", g) for g in cls(mesh, disc).solve_legacy(f0, 0.3, [1.4 * dt0, 2.3 * dt0])]
    except Exception as e:
        return [("C01/drivers/%s/exception" % iname, "raised %r" % (e,))]
    if res is not None:
        res.transitions += 3
    I0 = integrals(f0, vol)
    sc = np.array([float(np.sum(vol * np.abs(d))) for d in f0.data]) + 1e-300
    watch = list(range(model.neq)) if bc == "per" else ([0, 2] if kind == "euler1d" else [0])
    tol = 4e-6 if space.is_implicit(cls) else 1024 * EPS
    for entry, g in got:
        if not admissible(kind, g):
            if res is not None:
                res.skipped += 1
            continue
        err = (np.abs(integrals(g, vol) - I0) / sc)[watch].max()
        if res is not None:
            res.evals += 1
            res.worst("drivers/%s" % ("implicit" if space.is_implicit(cls) else "explicit"), err / tol)
        if not err <= tol:
            out.append(("C01/drivers/%s/%s/%s/%s" % (entry, iname, mname, bc), "%s %s %s %s mesh %r bc %s data %r: the field returned by %s at t=%r has integrals off by %.3g relative" % (
                iname, mname, flux, rname, mspec, bc, idx, entry, g.time, err)))
            break
    return out


def shard_solve(arg):
    iname, mname, flux, rname, tier = arg
    res = core.Res()
    kind0 = MODELS[mname][1]
    for bc0 in ["per"] + (["sym"] if kind0 in ("euler1d", "shallowwater") else []):
        for idx in itertools.product(range(3), repeat=3):
            if len(set(idx)) == 1:
                continue
            res.nontrivial += 1
            for s, w in check_drivers(iname, mname, flux, rname, ("w", (0.5, 2.0, 1.0)), bc0, idx, res):
                res.violation(s, w, {"kind": "drivers", "integrator": iname, "model": mname, "flux": flux, "recon": rname, "bc": bc0, "idx": list(idx)})
    for idx in ((0, 1, 2), (2, 0, 0), (1, 2, 1)):
        for s, w in check_after_dtlocal(iname, mname, flux, rname, ("w", (0.5, 2.0, 1.0)), "per", idx, res):
            res.violation(s, w, {"kind": "afterdtl", "integrator": iname, "model": mname, "flux": flux, "recon": rname, "idx": list(idx)})
    spec, kind = MODELS[mname]
    impl = space.is_implicit(space.integrators()[iname])
    cfls = (0.1, 0.5, 1.0, 5.0) if impl else (0.1, 0.5)
    meshes_ = [("uni", 3, 3.0, 0.0), ("w", (0.5, 2.0, 1.0))] + ([("w", (1.0, 0.5, 0.5, 2.0))] if tier == "thorough" else [])
    bcs = ["per"] + (["sym"] if kind in ("euler1d", "shallowwater") else [])
    L = 3
    for mspec in meshes_:
        n = mspec[1] if mspec[0] == "uni" else len(mspec[1])
        for bc in bcs:
            for idx in itertools.product(range(L), repeat=n):
                if len(set(idx)) == 1:
                    continue
                res.nontrivial += 1
                depth = 2 if (impl and tier == "quick") else 3
                for s, w in bfs_solve(iname, mname, flux, rname, mspec, bc, idx, depth, cfls, res):
                    res.violation(s, w, {"kind": "solve", "integrator": iname, "model": mname, "flux": flux, "recon": rname, "mesh": mspec, "bc": bc,
                                         "idx": list(idx), "depth": depth, "cfls": list(cfls)})
    res.sample({"integrator": iname, "model": mname, "flux": flux, "recon": rname, "mesh": ["w", [0.5, 2.0, 1.0]], "bc": "per", "data_letters": [0, 1, 2],
                "transitions": [["step", "cfl=0.5"], ["step", "cfl=0.1"], ["step", "cfl=0.5"]]}, cap=1)
    return res


def solve2d(arg):
    iname, flux, rname, bcname = arg
    res = core.Res()
    cls = space.integrators()[iname]
    model = space.euler.euler2d()
    for grid in ((2, 2, 1.0, 1.0), (3, 2, 2.0, 0.5)):
        nx, ny, lx, ly = grid
        msh = space.mesh2.mesh2d(nx, ny, lx, ly)
        disc = space.modeldisc.fvm2d(model, msh, space.recon(rname), BC2D[bcname], numflux=flux)
        vol = np.asarray(msh.vol(), float)
        for idx in itertools.product(range(2), repeat=nx * ny):
            if len(set(idx)) == 1:
                continue
            f = field2d(model, msh, [i + 1 for i in idx])
            I0 = integrals(f, vol)
            sc = np.abs(I0) + float(np.sum(vol)) * 1.0
            solver = cls(msh, disc)
            res.nontrivial += 1
            for step in range(3):
                with np.errstate(all="ignore"):
                    dt = float(np.min(disc.calc_timestep(f, 0.3)))
                    solver.step(f, dt)
                res.transitions += 1
                res.evals += 1
                if not all(np.all(np.isfinite(np.asarray(d))) for d in f.data):
                    res.skipped += 1
                    break
                I = integrals(f, vol)
                watch = [0, 1, 2, 3] if bcname == "per" else [0, 3]
                err = (np.abs(I - I0) / sc)[watch]
                res.worst("solve2d", err.max() / (256 * (step + 1) * EPS))
                if not np.all(err <= 256 * (step + 1) * EPS):
                    res.violation("C01/solve2d/%s/%s/%s" % (iname, flux, bcname), "%s %s %s grid %r bc %s data %r: integrals drift by %r after %d steps"
                                  % (iname, flux, rname, grid, bcname, idx, err.tolist(), step + 1),
                                  {"kind": "solve2d", "integrator": iname, "flux": flux, "recon": rname, "bc": bcname})
                    break
    return res


def run(ctx):
    th = ctx.thorough
    cfg = []
    for mname, (spec, kind) in MODELS.items():
        if mname in EXTRA and not th:
            continue
        model = space.make_model(spec)
        for flux in space.fluxes(model):
            for rname in (space.X1_ALL if th else space.X1_SHORT):
                cfg.append((mname, flux, rname, ctx.tier))
    if not th:
        cfg += [(mname, flux, rname, ctx.tier) for rname in space.X1_REST for mname, flux in (("convection+", None), ("euler1d", "hllc")) if mname in MODELS]
    ctx.pmap("operator-1d", shard_op1d, cfg)
    # the same operator space with long-lived objects: one model and one reconstruction object serve all meshes, boundaries and data of a shard
    first = {}
    for c in cfg:
        first.setdefault((c[0], c[2]), c)
    ctx.pmap("operator-1d-reused-objects", core.Pooled(shard_op1d), list(first.values()) if not th else cfg)
    cfg2 = []
    for flux in space.fluxes(space.euler.euler2d()):
        for rname in space.X2_ALL:
            for bcname in BC2D:
                for nx, ny in itertools.product((1, 2, 3), repeat=2):
                    ncell = nx * ny
                    letters = 3 if ncell <= 6 else (3 if th else 2)
                    if ncell <= 2:
                        letters = 4
                    cfg2.append((flux, rname, (nx, ny, 2.0, 0.75), bcname, letters))
                if th:
                    cfg2.append((flux, rname, (4, 2, 1.0, 3.0), bcname, 2))
                    cfg2.append((flux, rname, (2, 4, 1.0, 3.0), bcname, 2))
    cfg2.sort(key=lambda c: -(c[4] ** (c[2][0] * c[2][1])))
    ctx.pmap("operator-1d-size-ladder", shard_sizes, [c for c in cfg if c[2] in (space.X1_SHORT if not th else space.X1_ALL)])
    ctx.pmap("operator-2d", shard_op2d, cfg2)
    big = [(flux, rname, grid, bcname) for flux in space.fluxes(space.euler.euler2d()) for rname in (space.X2_ALL if th else space.X2_ALL[:3])
           for grid in ((5, 4, 2.0, 0.75), (7, 2, 1.0, 1.0), (2, 7, 1.0, 3.0), (4, 4, 1.0, 1.0)) for bcname in BC2D]
    ctx.pmap("operator-2d-size-ladder", shard_op2d_big, big)
    huge = [("2d", fl, r, g, b) for fl in ("centered", "hlle") for r in ("extrapol2d1", "extrapol2dk:0.3333333333333333")
            for g in ((128, 129, 2.0, 0.75), (182, 181, 1.0, 1.0)) for b in ("per", "sym")]
    huge += [("1d", mn, fl, r, n, bcs) for mn, fl in (("euler1d", "hllc"), ("convection+", None)) for r in ("extrapol1", "muscl:vanleer")
             for n in (32769, 65537) for bcs in (("per", "per"),)]
    ctx.pmap("operator-index-width-limits", shard_huge, huge)
    ctx.pmap("operator-1d-declared-sources", shard_sources, [(mk, fl, r) for mk, fl in (("euler1d", "hllc"), ("nozzle-const", "hllc"), ("nozzle-const", "hlle"), ("shallowwater", "hll"))
                                                             for r in ("extrapol1", "muscl:vanleer")])
    cfg3 = []
    for iname in space.integrators():
        for mname, flux, rname in (("convection-", None, "extrapol3"), ("burgers", None, "muscl:vanleer"), ("euler1d", "hllc", "muscl:minmod"),
                                   ("euler1d", "hlle", "extrapol2"), ("shallowwater", "hll", "extrapol1"), ("shallowwater", "rusanov", "muscl:vanalbada"),
                                   ("nozzle-const", "hllc", "extrapol1")):
            cfg3.append((iname, mname, flux, rname, ctx.tier))
    cfg3.sort(key=lambda c: (not space.is_implicit(space.integrators()[c[0]]), c[1]))
    ctx.pmap("solve-1d-bfs", shard_solve, cfg3)
    cfg4 = [(i, fl, r, b) for i in space.explicit_integrators() for fl in ("hlle", "centered") for r in ("extrapol2d1", "extrapol2dk:0.3333333333333333")
            for b in ("per", "sym", "xper-ysym")]
    ctx.pmap("solve-2d", solve2d, cfg4)


def _tup(x):
    return tuple(_tup(y) for y in x) if isinstance(x, list) else x


def replay(case):
    k = case["kind"]
    if k == "op1d":
        bcs = tuple(b if isinstance(b, str) else (b[0], b[1]) for b in case["bcs"])
        mspec = _tup(case["mesh"])
        v = check_op_1d(case["model"], case["flux"], case["recon"], mspec, bcs, tuple(case["idx"]), case["strength"])
        return [(s_.replace("C01/op1d/", "C01/op1d/larger-mesh/") if case.get("larger") else s_, w) for s_, w in v]
    if k == "op2d":
        v = check_op_2d(case["flux"], case["recon"], tuple(case["grid"]), case["bc"], tuple(case["idx"]))
        return [(s_.replace("C01/op2d/", "C01/op2d/larger-grid/") if case["grid"][0] * case["grid"][1] > 9 else s_, w) for s_, w in v]
    if k == "src1d":
        return check_sources_1d(case["model"], case["flux"], case["recon"], _tup(case["mesh"]), tuple(case["kinds"]), tuple(case["idx"]))
    if k == "huge":
        a = case["arg"]
        if a[0] == "1d":
            v = check_op_1d(a[1], a[2], a[3], ("uni", a[4], 10.0, -0.3), tuple(a[5]), space.huge_idx(a[4], case["pattern"], 3), "mild")
            return [(s_.replace("C01/op1d/", "C01/op1d/very-large-mesh/"), w[:600]) for s_, w in v]
        g = tuple(a[3])
        v = check_op_2d(a[1], a[2], g, a[4], space.huge_idx(g[0] * g[1], case["pattern"], 3))
        return [(s_.replace("C01/op2d/", "C01/op2d/very-large-grid/"), w[:600]) for s_, w in v]
    if k == "drivers":
        return check_drivers(case["integrator"], case["model"], case["flux"], case["recon"], ("w", (0.5, 2.0, 1.0)), case["bc"], tuple(case["idx"]))
    if k == "afterdtl":
        return check_after_dtlocal(case["integrator"], case["model"], case["flux"], case["recon"], ("w", (0.5, 2.0, 1.0)), "per", tuple(case["idx"]))
    if k == "solve":
        return bfs_solve(case["integrator"], case["model"], case["flux"], case["recon"], _tup(case["mesh"]), case["bc"], tuple(case["idx"]),
                         case["depth"], tuple(case["cfls"]))
    r = solve2d((case["integrator"], case["flux"], case["recon"], case["bc"]))
    return [(v["site"], v["what"]) for v in r.viols]
